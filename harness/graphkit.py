"""Shared machinery for the graph-level harnesses (C03, C04, C06, C08, C12, C15): environment stubs for
graphslam.graph in symbolic mode, free-symbol harness edges, independent reference assembly."""
import numpy

from .common import COMPACT, mk_pose


class Env:
    """what the stubs recorded during one call into Graph"""

    def __init__(self):
        self.solves = []  # (A, rhs, dx)
        self.printed = []
        self.clock = 0.0


def install_stubs(P, g, solver=None):
    """symbolic mode: rebind lil_matrix / spsolve / time / print of graphslam.graph.  Concrete mode: nothing is
    stubbed except print (captured)."""
    env = Env()
    gm = g.graph_mod

    def fake_print(*a, **k):
        env.printed.append(" ".join(str(x) for x in a))

    gm.print = fake_print
    if not P.symbolic:
        return env
    np = P.np

    class LilArray(numpy.ndarray):
        """dense object matrix with the part of the scipy.sparse.lil_matrix interface code may reasonably use"""

        def setdiag(self, values, k=0):
            n = min(self.shape)
            vals = numpy.asarray(values, dtype=object)
            for i in range(n - abs(k)):
                r, c = (i, i + k) if k >= 0 else (i - k, i)
                self[r, c] = vals[i] if vals.ndim else vals.item()

        def toarray(self):
            return numpy.array(self, dtype=object)

        todense = toarray

        def tocsr(self, copy=False):
            return self

        tocsc = tolil = tocoo = tocsr

        @property
        def nnz(self):
            raise AttributeError("nnz of the dense stand-in is not modelled")

    def lil_matrix(shape, dtype=None):
        return np.zeros(shape).view(LilArray)

    class FakeTime:
        @staticmethod
        def time():
            env.clock += 1.0
            return env.clock

    def spsolve(A, rhs):
        A = numpy.array(dense(A), dtype=object)
        rhs = numpy.array(rhs, dtype=object)
        _shadow_solution(P, A, rhs, "dx%d" % len(env.solves))
        if solver is not None:
            if getattr(solver, "shadow_name", None):
                _shadow_solution(P, A, rhs, solver.shadow_name(A, rhs))
            dx = solver(A, rhs, len(env.solves))
        else:
            dx = P.vector("dx%d" % len(env.solves), len(rhs))
        env.solves.append((A.copy(), rhs.copy(), dx))
        return dx

    gm.lil_matrix = lil_matrix
    gm.spsolve = spsolve
    gm.time = FakeTime
    return env


def _shadow_solution(P, A, rhs, name):
    """validation (shadow) mode: the stubbed solver's output gets the float solution of the evaluated system"""
    from symrun.scalars import CTX, Sym

    if CTX.shadow is None:
        return
    from symrun.shadow import evalf

    def f(x):
        x = Sym.lift(x)
        return float(x.v) if x.is_const() else float(evalf(x.v, CTX.shadow))

    Af = numpy.array([[f(x) for x in row] for row in A], dtype=float)
    bf = numpy.array([f(x) for x in rhs], dtype=float)
    try:
        sol = numpy.linalg.solve(Af, bf)
    except numpy.linalg.LinAlgError:
        sol = numpy.full(len(bf), float("nan"))
    for i, v in enumerate(sol):
        CTX.shadow["%s_%d" % (name, i)] = float(v)


def dense(M):
    if hasattr(M, "toarray"):
        return M.toarray()
    return numpy.array(M)


def make_free_edge_class(g, epoch_chi2=False):
    class FreeEdge(g.BaseEdge):
        """harness edge: error and Jacobians are free symbols (their correctness is C01/C02)"""

        def __init__(self, vertex_ids, information, err, jacs, vertices=None):
            super().__init__(vertex_ids, information, None, vertices)
            self._err = err
            self._jacs = jacs

        def calc_error(self):
            return self._err

        def calc_jacobians(self):
            return list(self._jacs)

        def is_valid(self):
            return self._is_valid()

    if not epoch_chi2:
        return FreeEdge

    class EpochFreeEdge(FreeEdge):
        """additionally: chi^2 is a free non-negative value per graph state (state = identity of the pose objects), so
        that the optimizer's control flow is explored for all chi^2 sequences"""

        P = None
        tag = ""

        def _state(self):
            objs = tuple(id(v.pose) for v in self.vertices)
            if objs != getattr(self, "_seen", None):
                self._seen = objs
                self._hold = [v.pose for v in self.vertices]
                self.epoch = getattr(self, "epoch", -1) + 1
            return self.epoch

        def calc_chi2(self):
            ep = self._state()
            chi = self.__dict__.setdefault("chi", {})
            if ep not in chi:
                chi[ep] = self.P.real("%schi%d_%d" % (self.tag, self.k, ep), lo=0.0)
            return chi[ep]

    return EpochFreeEdge


def structure_graph(P, g, kinds, edges, fixed, symbolic_ids=True, m=None, prefix="", epoch_chi2=False, info="sym", raw_quat=(), shared_pose=False, prelinked=False):
    """kinds: pose type per vertex (list order); edges: list of tuples of vertex indices; fixed: set of vertex indices.
    returns (graph, vertices, edge objects, ids)"""
    np = P.np
    FreeEdge = make_free_edge_class(g, epoch_chi2)
    if epoch_chi2:
        FreeEdge.P = P
        FreeEdge.tag = prefix
    nv = len(kinds)
    if symbolic_ids:
        ids = [P.int("%sid%d" % (prefix, i)) for i in range(nv)]
        P.distinct(ids)
    else:
        ids = list(range(nv))
    def _pose(i):
        if i in raw_quat and kinds[i] == "SE3":
            # stored quaternion of ARBITRARY length (the library never normalises a user's vertex)
            return g.PoseSE3(P.reals("%sv%d" % (prefix, i), 3), P.reals("%sv%d_rawq" % (prefix, i), 4))
        return mk_pose(P, g, kinds[i], "%sv%d" % (prefix, i), wrapped=True)

    if shared_pose:
        # vertices of the same pose type are all given ONE pose object (Vertex(i, start) in a loop)
        start = {}
        for i in range(nv):
            if kinds[i] not in start:
                start[kinds[i]] = _pose(i)
        verts = [g.Vertex(ids[i], start[kinds[i]], fixed=(i in fixed)) for i in range(nv)]
    else:
        verts = [g.Vertex(ids[i], _pose(i), fixed=(i in fixed)) for i in range(nv)]
    eobjs = []
    for k, tup in enumerate(edges):
        mm = m if m is not None else 2
        om = P.sym_matrix("%som%d" % (prefix, k), mm, psd=True) if info == "sym" else P.full_matrix("%som%d" % (prefix, k), mm, mm)
        err = P.vector("%se%d" % (prefix, k), mm)
        jacs = [P.full_matrix("%sJ%d_%d" % (prefix, k, a), mm, COMPACT[kinds[vi]]) for a, vi in enumerate(tup)]
        if P.symbolic:
            from symrun.scalars import SymInt

            vids = [SymInt(ids[vi].v) if symbolic_ids else ids[vi] for vi in tup]
        else:
            vids = [ids[vi] for vi in tup]
        eobjs.append(FreeEdge(vids, om, err, jacs))
        eobjs[-1].k = k
        if prelinked:
            # the edge object arrives already linked (it was part of another Graph / built with vertices=...): to FOREIGN
            # vertex objects that carry the same ids, other poses and other positions in the unknown vector
            eobjs[-1].vertices = []
            for a, vi in enumerate(tup):
                fv = g.Vertex(vids[a], mk_pose(P, g, kinds[vi], "%sforeign%d_%d" % (prefix, k, a), wrapped=True))
                fv.gradient_index = 7 * (a + 1)
                eobjs[-1].vertices.append(fv)
    graph = g.Graph(eobjs, verts)
    return graph, verts, eobjs, ids


def reference_system(P, kinds, edges, eobjs, fixed):
    """independent scatter-sum model of b and H (both triangles), fixed rows/cols replaced by zero/identity"""
    np = P.np
    dims = [COMPACT[k] for k in kinds]
    offs = [sum(dims[:i]) for i in range(len(kinds))]
    n = sum(dims)
    dt = object if P.symbolic else float
    b = numpy.zeros(n, dtype=dt)
    H = numpy.zeros((n, n), dtype=dt)
    for tup, e in zip(edges, eobjs):
        om, err, jacs = e.information, e._err, e._jacs
        mm = len(err)
        for a, va in enumerate(tup):
            for c in range(dims[va]):
                acc = 0.0
                for i in range(mm):
                    for j in range(mm):
                        acc = acc + err[i] * om[i][j] * jacs[a][j][c]
                b[offs[va] + c] = b[offs[va] + c] + acc
            for bb, vb in enumerate(tup):
                for r in range(dims[va]):
                    for c in range(dims[vb]):
                        acc = 0.0
                        for i in range(mm):
                            for j in range(mm):
                                acc = acc + jacs[a][i][r] * om[i][j] * jacs[bb][j][c]
                        H[offs[va] + r, offs[vb] + c] = H[offs[va] + r, offs[vb] + c] + acc
    for v in fixed:
        lo, hi = offs[v], offs[v] + dims[v]
        b[lo:hi] = 0.0
        H[lo:hi, :] = 0.0
        H[:, lo:hi] = 0.0
        for i in range(lo, hi):
            H[i, i] = 1.0
    return b, H, offs, dims


def contract_solver(P):
    """spsolve contract: a structurally singular matrix (an all-zero row) yields an unconstrained vector (models the
    NaN/garbage SuperLU returns); otherwise the result satisfies A dx = rhs."""
    from symrun.scalars import CTX, Sym

    def solver(A, rhs, k):
        n = len(rhs)
        dx = P.vector("dx%d" % k, n)

        def is_zero(x):
            x = Sym.lift(x)
            return x.is_const() and x.v == 0

        singular = any(all(is_zero(A[i][j]) for j in range(n)) for i in range(n))
        if not singular:
            for i in range(n):
                acc = 0.0
                for j in range(n):
                    if not is_zero(A[i][j]):
                        acc = acc + A[i][j] * dx[j]
                acc = Sym.lift(acc)
                CTX.cons.append(acc.z() == Sym.lift(rhs[i]).z())
        return dx

    return solver


def functional_solver(P, contract=False, normalise=False):
    """spsolve as an uninterpreted but deterministic function: identical argument terms give the identical result
    vector, anything else a fresh vector (so a system assembled at a stale state yields a different update); with ``contract`` the
    vector additionally satisfies A dx = rhs whenever A has no all-zero row"""
    from symrun.scalars import CTX, Sym

    memo = {}

    def keyof(A, rhs):
        if normalise:
            # equality of the linear systems up to polynomial normal form (z3's sum-of-monomials simplifier): used where the
            # two systems are built from different but algebraically equal terms (a graph and its translate)
            import z3

            return tuple(z3.simplify(Sym.lift(x).z(), som=True, sort_sums=True).hash() for x in list(A.flat) + list(rhs.flat))
        return tuple(Sym.lift(x).z().hash() for x in list(A.flat) + list(rhs.flat))

    def solver(A, rhs, k):
        key = keyof(A, rhs)
        if key not in memo:
            dx = P.vector("dxf%d" % len(memo), len(rhs))
            memo[key] = (len(memo), dx)
            if contract:
                n = len(rhs)

                def is_zero(x):
                    x = Sym.lift(x)
                    return x.is_const() and x.v == 0

                if not any(all(is_zero(A[i][j]) for j in range(n)) for i in range(n)):
                    for i in range(n):
                        acc = 0.0
                        for j in range(n):
                            if not is_zero(A[i][j]):
                                acc = acc + A[i][j] * dx[j]
                        CTX.cons.append(Sym.lift(acc).z() == Sym.lift(rhs[i]).z())
        return memo[key][1]

    def shadow_name(A, rhs):
        key = keyof(A, rhs)
        return "dxf%d" % (memo[key][0] if key in memo else len(memo))

    solver.shadow_name = shadow_name
    return solver
