"""C16 - custom edges with numerical Jacobians."""
from .common import COMPACT, POSE_KINDS, Case, mk_pose

PROPERTY = "C16"
EXPLANATION = (
    "The real BaseEdge.calc_jacobians / _calc_jacobian (forward difference through the real boxplus with eps = 1e-6 exactly) "
    "and BaseEdge.calc_chi2_gradient_hessian are executed symbolically on a family of custom edges that define only "
    "calc_error (BaseEdge subclasses written in the harness): relative position, unary prior, 3-vertex midpoint constraint, "
    "squared range, and relative pose, over the four pose types. z3 proves for all poses (all unit quaternions / angles): one "
    "Jacobian per vertex in vertex order with shape err.shape + (compact dim,); the vertex poses are restored; for error "
    "functions that are affine in the increment the numerical Jacobian EQUALS the dual-number derivative; for the quadratic "
    "and rotational ones |J_num - D| <= K entrywise with an explicit K = eps * M2 / 2 (M2 a stated bound of the second "
    "derivative on the stated box; cos/sin of eps enter through rational enclosures, sqrt(1 - eps^2) through its contract); "
    "and the gradient/Hessian contributions are e^T Omega J_i and J_i^T Omega J_j for every vertex pair i <= j of the n-ary edge."
)
BOUNDS = "7 error-function families (incl. one in arbitrarily small units and one whose error aliases the pose object) x 4 pose types; box |coordinates| <= 10 for the bounded (non-exact) families; 8 histories (edge differentiated at one state, vertices moved in place / rebound or measurement replaced, differentiated again, compared with fresh objects of the same values; all vertices marked fixed)"
OUTSIDE = "NOT decided: truncation bounds for rotational increments of the SE(3) relative-pose family (only its translation increments, where the forward difference is exact, are checked); NOT decided: the truncation bound of the relative-pose family for the entries d(translation rows)/d(rotation of the reference vertex) (degree-3 inequality with trig/sqrt enclosures: both z3 versions answer unknown within 10 minutes); NOT decided: 'graphs built from such edges converge to the same optimum as with exact Jacobians' (multi-iteration numerical convergence, same obstacle as C05); floating-point cancellation error 2u|e|/eps of the difference quotient"
ASSUMPTIONS = ["dual-number derivative semantics (validated against central differences)", "unit quaternions", "rational enclosures of cos(1e-6), sin(1e-6)", "sqrt contract"]

EPS = 1e-6


def family(P, g, name):
    np = P.np

    class Base(g.BaseEdge):
        def is_valid(self):
            return self._is_valid()

    if name == "relpos":

        class E(Base):
            """difference of positions in the world frame (affine in every increment)"""

            def calc_error(self):
                a, b = self.vertices[0].pose.position, self.vertices[1].pose.position
                return np.array([b[i] - a[i] - self.estimate[i] for i in range(len(self.estimate))])

        return E, 2, "exact"
    if name == "scaledrelpos":

        class E(Base):
            """relative position in small units: the error (and its derivative) is scaled by an arbitrary s > 0"""

            def calc_error(self):
                a, b = self.vertices[0].pose.position, self.vertices[1].pose.position
                return np.array([self.scale * (b[i] - a[i] - self.estimate[i]) for i in range(len(self.estimate))])

        return E, 2, "exact"
    if name == "aliasprior":

        class E(Base):
            """zero-mean prior whose error IS the vertex' pose object (no copy): the fallback must not be fooled by aliasing"""

            def calc_error(self):
                return self.vertices[0].pose

        return E, 1, "exact"
    if name == "prior":

        class E(Base):
            """unary prior on the position"""

            def calc_error(self):
                a = self.vertices[0].pose.position
                return np.array([a[i] - self.estimate[i] for i in range(len(self.estimate))])

        return E, 1, "exact"
    if name == "midpoint":

        class E(Base):
            """3-vertex constraint: the second vertex is the midpoint of the other two"""

            def calc_error(self):
                a, b, c = (v.pose.position for v in self.vertices)
                return np.array([a[i] + c[i] - 2.0 * b[i] - self.estimate[i] for i in range(len(self.estimate))])

        return E, 3, "exact"
    if name == "range2":

        class E(Base):
            """squared range between two positions (quadratic in the increment)"""

            def calc_error(self):
                a, b = self.vertices[0].pose.position, self.vertices[1].pose.position
                s = 0.0
                for i in range(len(a)):
                    s = s + (a[i] - b[i]) * (a[i] - b[i])
                return np.array([s - self.estimate])

        return E, 2, "quadratic"
    if name == "relpose":

        class E(Base):
            """relative pose (p2 - p1) in compact coordinates minus the measurement"""

            def calc_error(self):
                rel = (self.vertices[1].pose - self.vertices[0].pose).to_compact()
                return np.array([rel[i] - self.estimate[i] for i in range(len(rel))])

        return E, 2, "rotational"
    raise ValueError(name)


def _case(fam, kind, deep=False, history=None):
    def fn(P, g):
        import numpy

        np = P.np
        E, arity, regime = family(P, g, fam)
        box = regime != "exact"
        verts = []
        targets = []
        for i in range(arity):
            p = mk_pose(P, g, kind, "p%d" % i, wrapped=True)
            if history in ("inplace", "rebind"):
                # the edge is first used at OTHER poses q_i and the vertices are moved to p_i afterwards
                targets.append(p)
                p = mk_pose(P, g, kind, "q%d" % i, wrapped=True)
            verts.append(g.Vertex(i, p))
        if box:
            for v in verts:
                npos = {"R2": 2, "R3": 3, "SE2": 2, "SE3": 3}[kind]
                for i in range(npos):
                    P.assume(P.both(v.pose[i] >= -10.0, v.pose[i] <= 10.0))
        npos = {"R2": 2, "R3": 3, "SE2": 2, "SE3": 3}[kind]
        if fam == "range2":
            est = P.real("z")
            m = 1
        elif fam == "relpose":
            est = P.vector("z", COMPACT[kind])
            m = COMPACT[kind]
        elif fam == "aliasprior":
            est = None
            m = len(verts[0].pose.to_array())
        else:
            est = P.vector("z", npos)
            m = npos
        om = P.sym_matrix("om", m, psd=True)
        e = E(list(range(arity)), om, est, vertices=verts)
        scale = 1.0
        if fam == "scaledrelpos":
            scale = P.positive("s")
            e.scale = scale
        if fam == "relpose" and kind == "SE2":
            # stay away from the wrap of the relative angle (the error function is discontinuous there by definition)
            rel = verts[1].pose - verts[0].pose
            P.assume(P.both(rel[2] >= -3.0, rel[2] <= 3.0))
        if history is not None:
            # first use (everything the edge offers is evaluated once), then the state changes
            g.BaseEdge.calc_jacobians(e)
            e.calc_chi2_gradient_hessian()
            e.calc_chi2()
            if history == "inplace":
                for v, p in zip(verts, targets):
                    v.pose[:] = p.to_array()
            elif history == "rebind":
                for v, p in zip(verts, targets):
                    v.pose = p
            elif history == "fixedflags":
                for v in verts:
                    v.fixed = True  # (optimize() leaves vertices[0].fixed set): the Jacobian is still the derivative
            elif history == "estimate":
                est = P.real("z_new") if fam == "range2" else P.vector("z_new", len(est))
                e.estimate = est
        before = [v.pose for v in verts]
        before_vals = [v.pose.to_array() for v in verts]
        J = g.BaseEdge.calc_jacobians(e)
        P.check("one_jacobian_per_vertex", len(J) == arity)
        if history is not None:
            # what the used edge / vertex / pose objects report now is what FRESH objects holding the same values report
            def rebuild(p):
                a = p.to_array()
                if kind in ("R2", "R3"):
                    return type(p)(a)
                return type(p)(a[:2], a[2]) if kind == "SE2" else type(p)(a[:3], a[3:])

            fresh_verts = [g.Vertex(i, rebuild(v.pose)) for i, v in enumerate(verts)]
            e_fresh = E(list(range(arity)), om, e.estimate, vertices=fresh_verts)
            if fam == "scaledrelpos":
                e_fresh.scale = scale
            for k, (Ja, Jb) in enumerate(zip(J, g.BaseEdge.calc_jacobians(e_fresh))):
                P.check_eq("same_as_fresh_objects_%d" % k, Ja, Jb)
        for k, v in enumerate(verts):
            P.check("pose_restored_object_%d" % k, type(v.pose) is type(before[k]))
            P.check_eq("pose_restored_%d" % k, v.pose.to_array(), before_vals[k], tol=1e-15)
        err = e.calc_error()
        for k, v in enumerate(verts):
            dim = v.pose.COMPACT_DIMENSIONALITY
            P.check("shape_%d" % k, tuple(numpy.shape(J[k])) == tuple(numpy.shape(err)) + (dim,))

            def f(delta, v=v):
                old = v.pose
                v.pose = old + delta
                try:
                    return e.calc_error()
                finally:
                    v.pose = old

            D = P.derivative(f, dim)
            if regime == "exact":
                # compared in units of the error's own scale (an absolute 1e-6 is meaningless for errors in small units)
                P.check_eq("numerical_equals_derivative_%d" % k, np.array(J[k]) / scale, np.array(D) / scale, deriv=True)
            elif not P.symbolic:
                P.check_eq("numerical_close_to_derivative_%d" % k, J[k], D, deriv=True)
            else:
                # explicit truncation bound K = eps * M2 / 2 on the box
                if fam == "range2":
                    K = EPS * 1.001  # second derivative of |a - b|^2 along a unit direction is 2
                else:
                    K = EPS * 60.0  # relative pose: |second derivative| <= 2*|t2 - t1| + 2 <= 2*sqrt(3)*20 + 2 < 120
                for idx in numpy.ndindex(numpy.shape(D)):
                    col = idx[-1]
                    if fam == "relpose" and col < npos:
                        # translation increments enter affinely (t + R dt): the forward difference is exact
                        P.check_eq("numerical_equals_derivative_%d%s" % (k, list(idx)), J[k][idx], D[idx], deriv=True)
                        continue
                    if fam == "relpose" and k == 0 and idx[0] < npos and not deep:
                        continue  # rotation of the reference pose acting on the lever arm: not decided (see OUTSIDE)
                    if fam == "relpose" and kind == "SE3":
                        continue  # rotational increments of SE(3) relative poses (sqrt(1 - eps^2) x 3 spheres): not decided
                    diff = J[k][idx] - D[idx]
                    P.check("truncation_bound_%d%s" % (k, list(idx)), P.both(diff <= K, diff >= -K))
        # contributions of the n-ary edge
        chi2, grads, hess = e.calc_chi2_gradient_hessian()
        J2 = e.calc_jacobians()
        P.check("gradient_count", len(grads) == arity)
        P.check("hessian_pair_count", len(hess) == arity * (arity + 1) // 2)
        for k in range(arity):
            P.check("gradient_index_%d" % k, grads[k][0] == verts[k].gradient_index)
            P.check_eq("gradient_contribution_%d" % k, grads[k][1], np.dot(np.dot(np.transpose(err), om), J2[k]), tol=1e-6)
        pairs = [(i, j) for i in range(arity) for j in range(i, arity)]
        for (i, j), (idx, blk) in zip(pairs, hess):
            P.check("hessian_index_%d%d" % (i, j), idx == (verts[i].gradient_index, verts[j].gradient_index))
            P.check_eq("hessian_contribution_%d%d" % (i, j), blk, np.dot(np.dot(np.transpose(J2[i]), om), J2[j]), tol=1e-5)

    return fn


def cases(tier):
    out = []
    for fam in ("relpos", "prior", "midpoint", "range2", "relpose", "scaledrelpos", "aliasprior"):
        for kind in POSE_KINDS:
            if fam == "aliasprior" and kind not in ("R2", "R3"):
                continue
            heavy = fam in ("range2", "relpose")
            out.append(Case("%s-%s" % (fam, kind), _case(fam, kind, deep=False), timeout=30 if tier == "quick" else 300, old_timeout=60 if tier == "quick" else 300, validate=2, shards=4 if heavy and kind in ("SE2", "SE3") else 1, val_tol=1e-3, feas_timeout_ms=1500))
    import os

    if os.environ.get("VERIF_C16_DEEP") == "1":
        # probing aid only (not part of any registered command): the entries documented as NOT decided
        out.append(Case("relpose-SE2-deep", _case("relpose", "SE2", deep=True), timeout=60, old_timeout=120, validate=1, shards=4, val_tol=1e-3, feas_timeout_ms=1500))
    # histories: the edge was already differentiated at another state (caches / remembered sparsity on the edge object)
    for fam, kind, mode in [("relpos", "R2", "inplace"), ("relpos", "SE2", "inplace"), ("prior", "R2", "estimate"), ("prior", "SE2", "inplace"), ("range2", "R2", "inplace"), ("range2", "R2", "rebind"), ("range2", "R2", "estimate"), ("midpoint", "R2", "rebind"), ("range2", "R2", "fixedflags"), ("relpos", "SE2", "fixedflags")]:
        out.append(Case("history-%s-%s-%s" % (mode, fam, kind), _case(fam, kind, history=mode), timeout=30 if tier == "quick" else 300, old_timeout=60 if tier == "quick" else 300, validate=2, val_tol=1e-3, feas_timeout_ms=1500))
    return out
