"""C02 - edge errors and chi^2 implement the documented measurement model."""
from .common import error_dim, COMPACT, EDGE_KINDS, POINT_OF, POSE_KINDS, Case, mk_edge, mk_pose
from .c09 import ref_matrix

PROPERTY = "C02"
EXPLANATION = (
    "The real calc_error of both edge classes is executed symbolically and compared, component by component and for all "
    "poses / measurements / offsets, with an independently written model: homogeneous matrices with textbook rotation "
    "matrices, M = (T1^-1 T2)^-1 T_z for odometry (rotation part: vector part of conj(conj(q1) x q2) x q_z by the textbook "
    "Hamilton product; SE(2): the angle z - (th2 - th1) up to 2*pi*k inside [-pi, pi]) and (T1 T_off)^-1 [l;1] - z for landmarks. "
    "BaseEdge.calc_chi2 is executed on a harness edge whose error is a vector of free symbols with a fully symbolic (not even "
    "symmetric) information matrix and proved equal to sum_ij Omega_ij e_i e_j; Omega = L^T L gives chi2 = sum_k ((L e)_k)^2 "
    "(hence >= 0), chi2 is linear in Omega, Graph.calc_chi2 is the sum over its edges (multisets of real edges, and the "
    "inductive step chi2(G+e) = chi2(G)+chi2(e)), and the error vanishes when the measurement equals the relative pose "
    "(either quaternion sign). History cases: after every query has been evaluated once, the vertices are moved to new "
    "arbitrary poses (in-place array assignment, rebinding, +=) and error, chi^2 and gradient contributions are proved to be "
    "those of the CURRENT vertex estimates (no stale cached state)."
)
BOUNDS = {"quick": "8 edge kinds; graph sums for all multisets of <=2 edge kinds plus one 3-edge graph", "thorough": "8 edge kinds; all multisets of <=3 edge kinds"}
BOUNDS = {k: v + "; histories (vertices moved in place / rebound / +=; information matrix edited in place after construction); three edges over one vertex pair; edge objects re-linked to other vertices of the same ids" for k, v in BOUNDS.items()}
OUTSIDE = "rounding; graphs beyond the bound are covered by the fold step only"
ASSUMPTIONS = ["unit quaternions", "cos/sin addition formulas", "wrap contract a % m = a - m k"]


def _inv_rigid(P, M):
    """inverse of a homogeneous rigid transform [R t; 0 1]"""
    np = P.np
    n = len(M) - 1
    R = np.array([[M[i][j] for j in range(n)] for i in range(n)], dtype=object if P.symbolic else float)
    t = np.array([M[i][n] for i in range(n)], dtype=object if P.symbolic else float)
    Rt = np.transpose(R)
    mt = -np.dot(Rt, t)
    out = []
    for i in range(n):
        out.append([Rt[i][j] for j in range(n)] + [mt[i]])
    out.append([0.0] * n + [1.0])
    return np.array(out, dtype=object if P.symbolic else float)


def _hamilton(a, b):
    """textbook Hamilton product of quaternions given as (x, y, z, w)"""
    ax, ay, az, aw = a
    bx, by, bz, bw = b
    return (
        aw * bx + ax * bw + ay * bz - az * by,
        aw * by - ax * bz + ay * bw + az * bx,
        aw * bz + ax * by - ay * bx + az * bw,
        aw * bw - ax * bx - ay * by - az * bz,
    )


def _conj(q):
    return (-q[0], -q[1], -q[2], q[3])


def _touch(P, g, e, v1, v2, mode):
    """a history before the error is read: evaluate everything once, then move the vertices to NEW arbitrary poses either
    in place (array assignment), by rebinding v.pose, or through the += operator"""
    e.calc_error()
    e.calc_chi2()
    e.calc_jacobians()
    e.calc_chi2_gradient_hessian()
    for k, v in enumerate((v1, v2)):
        kind = {2: "R2", 7: "SE3"}.get(len(v.pose.to_array()))
        if kind is None:
            kind = "SE2" if type(v.pose) is g.PoseSE2 else "R3"
        new = mk_pose(P, g, kind, "moved%d" % k, wrapped=True)
        if mode == "inplace":
            v.pose[:] = new.to_array()
        elif mode == "rebind":
            v.pose = new
        else:
            v.pose += (new.to_compact() if kind != "SE3" else P.vector("dmove%d" % k, 6, lo=-0.4, hi=0.4))


def _error(ek, mode=None):
    def fn(P, g):
        np = P.np
        e, v1, v2 = mk_edge(P, g, ek)
        if mode is not None:
            _touch(P, g, e, v1, v2, mode)
        err = e.calc_error()
        kind = ek[1]
        if ek[0] == "odom":
            p1, p2, z = v1.pose, v2.pose, e.estimate
            T1, T2, Tz = (ref_matrix(P, g, kind, x) for x in (p1, p2, z))
            rel = np.dot(_inv_rigid(P, T1), T2)
            M = np.dot(_inv_rigid(P, rel), Tz)
            n = len(M) - 1
            P.check("error_length", len(err) == COMPACT[kind])
            P.check_eq("translation", err[:n], [M[i][n] for i in range(n)])
            if kind == "SE2":
                exact = z[2] - (p2[2] - p1[2])
                P.check("angle_range", P.both(err[2] >= -np.pi, err[2] <= np.pi))
                P.check("angle_congruent", P.is_integer((err[2] - exact) / (2 * np.pi)))
                # and the rotation block of M is the rotation by the reported angle
                P.check_eq("rotation_cos", np.cos(err[2]), M[0][0])
                P.check_eq("rotation_sin", np.sin(err[2]), M[1][0])
            if kind == "SE3":
                q1, q2, qz = tuple(p1[3:]), tuple(p2[3:]), tuple(z[3:])
                qrel = _hamilton(_conj(q1), q2)
                qerr = _hamilton(_conj(qrel), qz)
                P.check_eq("rotation_vector_part", err[3:], list(qerr[:3]))
        else:
            p1, l, z, off = v1.pose, v2.pose, e.estimate, e.offset
            pt = POINT_OF[kind]
            T1, Toff = ref_matrix(P, g, kind, p1), ref_matrix(P, g, kind, off)
            n = COMPACT[pt]
            hom = np.array([l[i] for i in range(n)] + [1.0])
            pred = np.dot(_inv_rigid(P, np.dot(T1, Toff)), hom)
            P.check("error_length", len(err) == n)
            P.check_eq("landmark_error", err, [pred[i] - z[i] for i in range(n)])
        if mode is not None:
            # chi2 and the gradient contributions are those of the CURRENT state as well
            om = e.information
            ref = 0.0
            for i in range(len(err)):
                for j in range(len(err)):
                    ref = ref + om[i][j] * err[i] * err[j]
            P.check_eq("chi2_current_state", e.calc_chi2(), ref)
            c2, grads, hess = e.calc_chi2_gradient_hessian()
            J = e.calc_jacobians()
            P.check_eq("gh_chi2_current_state", c2, ref)
            for a in range(2):
                P.check_eq("gradient_current_state_%d" % a, grads[a][1], np.dot(np.dot(np.transpose(err), om), J[a]))

    return fn


def _zero(ek):
    """error = 0 when the measurement agrees with the vertex estimates (either quaternion sign)"""

    def fn(P, g):
        np = P.np
        kind = ek[1]
        if ek[0] == "odom":
            p1 = mk_pose(P, g, kind, "p1")
            p2 = mk_pose(P, g, kind, "p2")
            v1, v2 = g.Vertex(0, p1), g.Vertex(1, p2)
            z = p2 - p1
            e = g.EdgeOdometry([0, 1], np.eye(COMPACT[kind]), z, vertices=[v1, v2])
            P.check_eq("zero", e.calc_error(), np.zeros(COMPACT[kind]))
            if kind == "SE3":
                zneg = g.PoseSE3(z[:3], [-z[3], -z[4], -z[5], -z[6]])
                e2 = g.EdgeOdometry([0, 1], np.eye(6), zneg, vertices=[v1, v2])
                P.check_eq("zero_negated_quaternion", e2.calc_error(), np.zeros(6))
        else:
            pt = POINT_OF[kind]
            p1 = mk_pose(P, g, kind, "p1")
            off = mk_pose(P, g, kind, "off")
            z = mk_pose(P, g, pt, "z")
            l = (p1 + off) + z  # the landmark seen at z from the sensor frame
            v1, v2 = g.Vertex(0, p1), g.Vertex(1, l)
            e = g.EdgeLandmark([0, 1], np.eye(COMPACT[pt]), z, off, offset_id=0, vertices=[v1, v2])
            P.check_eq("zero", e.calc_error(), np.zeros(COMPACT[pt]))

    return fn


def _free_edge(g, P, n, info, err=None, name="e"):
    """a BaseEdge subclass instance whose error is a vector of free symbols (chi2 formula in isolation)"""
    errv = P.vector(name, n) if err is None else err

    class FreeEdge(g.BaseEdge):
        def calc_error(self):
            return errv

        def is_valid(self):
            return True

    return FreeEdge([], info, None, vertices=[]), errv


def _chi2_formula(n):
    def fn(P, g):
        np = P.np
        om = P.full_matrix("om", n, n)  # fully symbolic, not symmetric
        e, err = _free_edge(g, P, n, om)
        ref = 0.0
        for i in range(n):
            for j in range(n):
                ref = ref + om[i][j] * err[i] * err[j]
        P.check_eq("chi2_quadratic_form", e.calc_chi2(), ref)
        # Omega = L^T L  =>  chi2 = |L e|^2  (>= 0)
        L = P.full_matrix("L", n, n)
        e2, _ = _free_edge(g, P, n, np.dot(np.transpose(L), L), err=err)
        Le = np.dot(L, err)
        sq = 0.0
        for k in range(n):
            sq = sq + Le[k] * Le[k]
        c2 = e2.calc_chi2()
        P.check_eq("chi2_gram", c2, sq)
        P.check("chi2_psd_nonneg", c2 >= 0)
        # linear in Omega
        om2 = P.full_matrix("om2", n, n)
        a, b = P.real("a"), P.real("b")
        e3, _ = _free_edge(g, P, n, a * om + b * om2, err=err)
        e4, _ = _free_edge(g, P, n, om2, err=err)
        P.check_eq("chi2_linear_in_information", e3.calc_chi2(), a * e.calc_chi2() + b * e4.calc_chi2())

    return fn


def _edge_chi2(ek):
    """chi2 of a real edge with a symbolic symmetric information matrix = e^T Omega e with e the real error"""

    def fn(P, g):
        n = COMPACT[ek[1]] if ek[0] == "odom" else COMPACT[POINT_OF[ek[1]]]
        om = P.sym_matrix("om", n)
        e, v1, v2 = mk_edge(P, g, ek, info=om)
        err = e.calc_error()
        ref = 0.0
        for i in range(n):
            for j in range(n):
                ref = ref + om[i][j] * err[i] * err[j]
        P.check_eq("edge_chi2", e.calc_chi2(), ref)

    return fn


def _info_edited(ek):
    """the edge is constructed with a DIAGONAL information matrix; correlation terms are then written into the same array
    in place (through the edge's attribute and through the caller's own reference): chi^2 is e^T Omega e of the CURRENT
    matrix"""

    def fn(P, g):
        import numpy

        np = P.np
        n = COMPACT[ek[1]] if ek[0] == "odom" else COMPACT[POINT_OF[ek[1]]]
        diag = P.reals("d", n)
        om = numpy.zeros((n, n), dtype=object if P.symbolic else float)
        for i in range(n):
            om[i, i] = diag[i]
        e, v1, v2 = mk_edge(P, g, ek, info=om)
        e.calc_chi2()
        k = 0
        for i in range(n):
            for j in range(i + 1, n):
                val = P.real("c%d" % k)
                k += 1
                if k % 2:
                    e.information[i, j] = val
                    e.information[j, i] = val
                else:
                    om[i, j] = val
                    om[j, i] = val
        err = e.calc_error()
        ref = 0.0
        for i in range(n):
            for j in range(n):
                ref = ref + om[i][j] * err[i] * err[j]
        P.check("same_array", e.information is om)
        P.check_eq("chi2_current_information", e.calc_chi2(), ref)
        c2, grads, hess = e.calc_chi2_gradient_hessian()
        P.check_eq("gh_chi2_current_information", c2, ref)

    return fn


def _graph_sum(eks, fixed=False):
    def fn(P, g):
        edges, verts = [], []
        for i, ek in enumerate(eks):
            n = COMPACT[ek[1]] if ek[0] == "odom" else COMPACT[POINT_OF[ek[1]]]
            om = P.sym_matrix("om%d" % i, n)
            e, v1, v2 = mk_edge(P, g, ek, info=om, ids=(2 * i, 2 * i + 1), names=tuple("%s%d" % (s, i) for s in (("p", "q", "z") if ek[0] == "odom" else ("p", "l", "z", "off"))))
            e.vertices = None
            edges.append(e)
            verts += [v1, v2]
        for v in verts:
            v.fixed = fixed  # chi^2 is the sum over ALL edges, whether or not their vertices are fixed
        gr = g.Graph(edges, verts)
        total = 0.0
        for e in edges:
            total = total + e.calc_chi2()
        P.check_eq("graph_chi2_is_sum", gr.calc_chi2(), total)

    return fn


def _parallel_and_relinked(ek):
    """(a) several edges over the SAME ordered vertex pair: the graph's chi^2 counts every one of them; (b) an edge object
    that is already linked to vertices (same ids, other poses - e.g. it was part of another Graph) is put into a new
    Graph: its error and chi^2 are evaluated at the NEW graph's vertices"""

    def fn(P, g):
        import numpy

        n = error_dim(ek)
        names_a = ("p", "q", "z") if ek[0] == "odom" else ("p", "l", "z", "off")
        e1, v1, v2 = mk_edge(P, g, ek, info=P.sym_matrix("om1", n), ids=(0, 1), names=names_a)
        # a second and third observation between the same two vertices
        twins = []
        for k in (2, 3):
            zk = mk_pose(P, g, ek[1] if ek[0] == "odom" else POINT_OF[ek[1]], "z%d" % k)
            omk = P.sym_matrix("om%d" % k, n)
            if ek[0] == "odom":
                twins.append(g.EdgeOdometry([0, 1], omk, zk))
            else:
                twins.append(g.EdgeLandmark([0, 1], omk, zk, e1.offset, offset_id=0))
        e1.vertices = None
        gr = g.Graph([e1] + twins, [v1, v2])
        total = 0.0
        for e in gr._edges:
            total = total + e.calc_chi2()
        P.check("three_edges", len(gr._edges) == 3)
        P.check_eq("parallel_edges_all_counted", gr.calc_chi2(), total)
        # (b) re-use of the linked edge objects with other vertex objects of the same ids
        pk, lk = ek[1], (ek[1] if ek[0] == "odom" else POINT_OF[ek[1]])
        n1, n2 = g.Vertex(0, mk_pose(P, g, pk, "np")), g.Vertex(1, mk_pose(P, g, lk, "nq"))
        gr2 = g.Graph([e1] + twins, [n1, n2])
        P.check("relinked_objects", all(e.vertices[0] is n1 and e.vertices[1] is n2 for e in gr2._edges))
        if ek[0] == "odom":
            fresh = g.EdgeOdometry([0, 1], e1.information, e1.estimate, vertices=[n1, n2])
        else:
            fresh = g.EdgeLandmark([0, 1], e1.information, e1.estimate, e1.offset, offset_id=0, vertices=[n1, n2])
        P.check_eq("relinked_error_at_new_vertices", e1.calc_error(), fresh.calc_error())
        P.check_eq("relinked_chi2_at_new_vertices", e1.calc_chi2(), fresh.calc_chi2())

    return fn


def _fold_step(P, g):
    """chi2(G + e) = chi2(G) + chi2(e) with chi2 of the existing edges free symbols"""
    np = P.np
    k = 3
    frees = [_free_edge(g, P, 1, np.array([[1.0]]), name="f%d" % i)[0] for i in range(k)]
    base = g.Graph(list(frees), [])
    c_base = base.calc_chi2()
    om = P.sym_matrix("om", 2)
    extra, _ = _free_edge(g, P, 2, om, name="x")
    for pos in range(k + 1):
        es = list(frees)
        es.insert(pos, extra)
        P.check_eq("fold_step_pos%d" % pos, g.Graph(es, []).calc_chi2(), c_base + extra.calc_chi2())
    P.check_eq("empty_graph", g.Graph([], []).calc_chi2(), 0.0)


def cases(tier):
    v = 2 if tier == "quick" else 6
    out = []
    for ek in EDGE_KINDS:
        heavy = ek[1] == "SE3"
        out.append(Case("error-%s-%s" % ek, _error(ek), timeout=10, old_timeout=30, validate=v, shards=3 if heavy else 1))
        out.append(Case("zero-%s-%s" % ek, _zero(ek), timeout=10, old_timeout=30, validate=v))
        if ek[1] != "SE3" or ek[0] == "lmk":
            out.append(Case("info-edited-%s-%s" % ek, _info_edited(ek), timeout=10, old_timeout=30, validate=1, cert_first=ek[1] in ("SE2", "SE3")))
        for mode in ("inplace", "rebind", "iadd"):
            if tier == "quick" and heavy and mode != "inplace":
                continue
            if mode == "iadd" and ek == ("odom", "SE3"):
                continue  # boxplus of both endpoints inside a 3-sphere identity: neither z3 version decides it
            out.append(Case("history-%s-%s-%s" % (mode, ek[0], ek[1]), _error(ek, mode), timeout=10, old_timeout=30, validate=1, shards=3 if heavy else 1, feas_timeout_ms=1000))
        out.append(Case("edgechi2-%s-%s" % ek, _edge_chi2(ek), timeout=10, validate=v, cert_first=ek[1] in ("SE2", "SE3")))
    for n in (1, 2, 3, 6):
        out.append(Case("chi2-formula-%d" % n, _chi2_formula(n), timeout=20, old_timeout=30, validate=v))
    combos = []
    import itertools

    maxk = 2 if tier == "quick" else 3
    for k in range(1, maxk + 1):
        combos += list(itertools.combinations_with_replacement(range(len(EDGE_KINDS)), k))
    if tier == "quick":
        combos.append((0, 3, 5))
    for c in combos:
        eks = [EDGE_KINDS[i] for i in c]
        out.append(Case("graphsum-" + "+".join("%s.%s" % ek for ek in eks), _graph_sum(eks), timeout=10, validate=1))
        if len(eks) <= 2:
            out.append(Case("graphsum-allfixed-" + "+".join("%s.%s" % ek for ek in eks), _graph_sum(eks, True), timeout=10, validate=1))
    for ek in [("odom", "R2"), ("odom", "SE2"), ("lmk", "SE2"), ("lmk", "R3")]:
        out.append(Case("parallel-relinked-%s-%s" % ek, _parallel_and_relinked(ek), timeout=10, validate=1))
    out.append(Case("fold-step", _fold_step, timeout=10, validate=v))
    return out
