"""C12 - the optimization report is faithful and the stopping rule is the documented one."""
import itertools

from .common import Case
from .graphkit import install_stubs

PROPERTY = "C12"
EXPLANATION = (
    "The complete real Graph.optimize (loop, convergence test, OptimizationResult/IterationResult bookkeeping, __str__) is "
    "executed on a graph whose harness edges report a FREE symbolic chi^2 >= 0 per graph state (a state = the vertices' pose "
    "objects; every update creates new ones), so that all feasible control-flow paths are explored for ALL chi^2 sequences, "
    "with symbolic tol >= 0 and concrete max_iter. On every path z3 proves that initial_chi2, every iteration's chi2 and "
    "rel_diff, final_chi2, converged, num_iterations, len(iteration_results), is_complete_iteration() and the number of pose "
    "updates agree with a reference written from the docstrings (stop at the first i>=1 with c_i <= c_(i-1) and "
    "(c_(i-1)-c_i)/(c_(i-1)+eps) < tol, else after max_iter updates), that final_chi2 equals a subsequent calc_chi2(), that "
    "verbose=True/False give identical results and that str(result) does not raise. Splitting: for every composition "
    "k1+...+km = n, consecutive optimize(max_iter=k_j, tol=0) calls reproduce the pose terms and chi^2 reports of one call."
)
BOUNDS = {"quick": "max_iter 1..4, all chi^2 sequences, tol symbolic; all compositions of n<=4", "thorough": "max_iter 1..7; all compositions of n<=6"}
BOUNDS = {k: v + "; singular-solve variants; chi^2 of any sign (max_iter 2..3); a vertex pose replaced between two calls" for k, v in BOUNDS.items()}
OUTSIDE = "durations (the clock stub is only monotone); max_iter beyond the bound (each loop iteration is the same code; the bound limits the bookkeeping paths)"
ASSUMPTIONS = ["chi^2 >= 0 (positive semi-definite information)", "spsolve stub: an arbitrary but deterministic function of its arguments (same matrix and right-hand side terms => same result, different terms => an unrelated vector)", "time stub: strictly increasing instants"]


def make_epoch_edge(P, g, tag, lo=0.0):
    """lo=None: chi^2 of ANY sign (an edge with an indefinite information matrix, a custom chi^2): the bookkeeping must not
    depend on the sign"""
    np = P.np

    class EpochEdge(g.BaseEdge):
        """chi^2 is a free non-negative value per graph state; error/Jacobians are constants of the right shape"""

        all_verts = None

        def __init__(self, vertex_ids, k):
            super().__init__(vertex_ids, np.eye(2), None)
            self.k = k
            self.epoch = -1
            self.seen = None
            self.chi = {}

        def _state(self):
            objs = tuple(id(v.pose) for v in (self.all_verts or self.vertices))
            if objs != self.seen:
                self.seen = objs
                self._hold = [v.pose for v in (self.all_verts or self.vertices)]  # keep ids unique
                self.epoch += 1
            return self.epoch

        def calc_chi2(self):
            ep = self._state()
            if ep not in self.chi:
                self.chi[ep] = P.real("%sc%d_%d" % (tag, self.k, ep), lo=lo)
            return self.chi[ep]

        def calc_error(self):
            # free per state as well, so that a linear system assembled at a stale state is a different system
            ep = self._state()
            if ("e", ep) not in self.chi:
                self.chi[("e", ep)] = P.vector("%serr%d_%d" % (tag, self.k, ep), 2)
            return self.chi[("e", ep)]

        def calc_jacobians(self):
            # constant, well-conditioned Jacobians: the linear system stays solvable in the float64 replays, while the
            # right-hand side (free error per state) still makes every state's system different
            return [np.array([[1.0, 0.5], [0.25, 2.0]]) * (a + 1 + self.k) for a in range(len(self.vertices))]

        def is_valid(self):
            return self._is_valid()

    return EpochEdge


def _build(P, g, tag="", isolated=False, anysign=False):
    EpochEdge = make_epoch_edge(P, g, "", lo=None if anysign else 0.0)
    verts = [g.Vertex(i, g.PoseR2([0.5 * i, 1.0 - i])) for i in range(5 if isolated else 4)]  # vertex 4: free, no edges
    verts[3].fixed = True
    # the third edge joins two fixed vertices: its chi^2 still belongs to the graph's chi^2
    edges = [EpochEdge([0, 1], 0), EpochEdge([2, 1], 1), EpochEdge([0, 3], 2), EpochEdge([3, 2], 3)]
    EpochEdge.all_verts = verts  # a state = the pose objects of the whole graph
    return g.Graph(edges, verts), verts, edges


def _total(edges, ep):
    t = 0.0
    for e in edges:
        t = t + e.chi[ep]
    return t


def _report(max_iter, isolated=False, anysign=False):
    """isolated=True: a free vertex without edges makes the linear system singular (the real solver returns NaN, the
    stub an unconstrained vector): the bookkeeping must still follow the documented rule"""

    def fn(P, g):
        np = P.np
        eps = float(np.finfo(float).eps)
        tol = P.real("tol", lo=0.0, hi=1.0) if P.symbolic else P.given.get("tol", P.rng.choice([0.0, 1e-12, 1e-4, 0.1, 0.5, 0.9]))
        if not P.symbolic:
            P.inputs["tol"] = tol
        results = []
        from .graphkit import functional_solver

        solver = functional_solver(P, contract=True) if P.symbolic else None
        for verbose in (False, True):
            env = install_stubs(P, g, solver=solver)
            graph, verts, edges = _build(P, g, isolated=isolated, anysign=anysign)
            import warnings

            with warnings.catch_warnings():
                warnings.simplefilter("ignore")
                res = graph.optimize(tol=tol, max_iter=max_iter, fix_first_pose=True, verbose=verbose)
            n_updates = edges[0].epoch  # states seen so far: 0..epoch
            after = graph.calc_chi2()
            results.append((res, edges, verts, after, n_updates, env))
        res, edges, verts, after, n_updates, env = results[0]
        n_states = edges[0].epoch + 1
        c = [_total(edges, k) for k in range(n_states)]
        if anysign:
            # the relative decrease divides by chi^2 + eps: a total of exactly -eps is excluded (division by zero, in the
            # real code as well)
            for ck in c:
                P.assume(P.either(ck + eps > 0.0, ck + eps < 0.0))
        # reference stopping rule (decided along this path: in symbolic mode these comparisons are implied or fork)
        stop = None
        for i in range(1, max_iter + 1):
            if i >= len(c):
                break
            if P.is_true(c[i] <= c[i - 1]) and P.is_true((c[i - 1] - c[i]) / (c[i - 1] + eps) < tol):
                stop = i
                break
        expect_iters = stop if stop is not None else max_iter
        P.check("num_iterations", res.num_iterations == expect_iters)
        P.check("updates_equal_iterations", n_updates == expect_iters)
        P.check("states_seen", n_states == expect_iters + 1)
        P.check("converged_flag", bool(res.converged) == (stop is not None))
        early = stop is not None and stop < max_iter
        P.check("len_iteration_results", len(res.iteration_results) == (expect_iters + 1 if early else max_iter))
        P.check_eq("initial_chi2", res.initial_chi2, c[0])
        P.check_eq("final_chi2", res.final_chi2, c[expect_iters])
        P.check_eq("final_equals_calc_chi2", res.final_chi2, after)
        for j in range(expect_iters):
            ir = res.iteration_results[j]
            P.check("complete_%d" % j, ir.is_complete_iteration())
            P.check_eq("iter_chi2_%d" % j, ir.chi2, c[j + 1])
            P.check_eq("iter_rel_diff_%d" % j, ir.rel_diff, -(c[j] - c[j + 1]) / (c[j] + eps))
        if early:
            P.check("last_incomplete", not res.iteration_results[-1].is_complete_iteration())
        if P.symbolic:
            P.check("solves", len(env.solves) == expect_iters)
        # verbose does not alter results
        res2, edges2, verts2, after2, n_updates2, env2 = results[1]
        P.check("verbose_same_iterations", res2.num_iterations == res.num_iterations and bool(res2.converged) == bool(res.converged) and len(res2.iteration_results) == len(res.iteration_results))
        P.check_eq("verbose_same_final", res2.final_chi2, res.final_chi2)
        P.check_eq("verbose_same_initial", res2.initial_chi2, res.initial_chi2)
        for v1, v2 in zip(verts, verts2):
            P.check_eq("verbose_same_pose", v2.pose.to_array(), v1.pose.to_array())
        P.check("verbose_printed", len(env.printed) == 0 and len(env2.printed) > 0)
        # str() does not raise (durations are concrete stub instants)
        if P.symbolic:
            res.final_chi2, res.initial_chi2 = 1.0, 2.0
            for ir in res.iteration_results:
                if ir.chi2 is not None:
                    ir.chi2, ir.rel_diff = 1.0, -0.5
        try:
            s = str(res)
            P.check("str_ok", isinstance(s, str) and "Iterations = %d" % expect_iters in s)
        except Exception as e:  # noqa
            P.fail("str_raised", repr(e))

    return fn


def _edited_between_calls(P, g):
    """optimize() (any outcome, including early convergence), then the user replaces a vertex pose through the public
    attribute, then optimize() again: the second report must describe the graph as it is NOW"""
    from .graphkit import functional_solver

    eps = float(P.np.finfo(float).eps)
    solver = functional_solver(P, contract=True) if P.symbolic else None
    env = install_stubs(P, g, solver=solver)
    graph, verts, edges = _build(P, g)
    tol = P.real("tol", lo=0.0, hi=1.0) if P.symbolic else P._get("tol", lambda: P.rng.choice([0.0, 1e-4, 0.5, 0.9]))
    graph.optimize(tol=tol, max_iter=2, fix_first_pose=True, verbose=False)
    before_epoch = edges[0].epoch
    n_solves = len(env.solves)
    verts[1].pose = g.PoseR2([P.real("newx"), P.real("newy")])
    res = graph.optimize(tol=tol, max_iter=1, fix_first_pose=True, verbose=False)
    first_state = before_epoch + 1  # the edited graph is a new state
    P.check("new_state_seen", edges[0].epoch >= first_state)
    P.check_eq("initial_chi2_is_current", res.initial_chi2, _total(edges, first_state))
    P.check_eq("final_is_calc_chi2", res.final_chi2, graph.calc_chi2())
    if P.symbolic:
        P.check("solved_again", len(env.solves) == n_solves + 1)
        A, rhs, _dx = env.solves[-1]
        # the right-hand side of the first solve of the second call belongs to the CURRENT state (free error per state)
        b = 0.0
        import numpy

        want = numpy.zeros(len(rhs), dtype=object)
        for e in edges:
            err = e.chi[("e", first_state)]
            J = e.calc_jacobians()
            for a, v in enumerate(e.vertices):
                if v.fixed:
                    continue
                gi = v.gradient_index
                contrib = P.np.dot(P.np.dot(P.np.transpose(err), e.information), J[a])
                for c in range(2):
                    want[gi + c] = want[gi + c] + contrib[c]
        P.check_eq("rhs_is_current", rhs, -want)


def _compositions(n):
    out = []
    for k in range(1, n + 1):
        for cuts in itertools.combinations(range(1, n), k - 1):
            b = (0,) + cuts + (n,)
            out.append(tuple(b[i + 1] - b[i] for i in range(k)))
    return out


def _split(n, parts):
    def fn(P, g):
        from .graphkit import functional_solver

        solver = functional_solver(P) if P.symbolic else None
        env = install_stubs(P, g, solver=solver)
        graph, verts, edges = _build(P, g)
        res = graph.optimize(tol=0.0, max_iter=n, fix_first_pose=True, verbose=False)
        env2 = install_stubs(P, g, solver=solver)
        graph2, verts2, edges2 = _build(P, g)
        rs = [graph2.optimize(tol=0.0, max_iter=k, fix_first_pose=True, verbose=False) for k in parts]
        P.check("single_ran_all", res.num_iterations == n and edges[0].epoch == n)
        P.check("split_ran_all", all(r.num_iterations == k for r, k in zip(rs, parts)) and edges2[0].epoch == n)
        for v1, v2 in zip(verts, verts2):
            P.check_eq("same_pose", v2.pose.to_array(), v1.pose.to_array())
        P.check_eq("same_final_chi2", rs[-1].final_chi2, res.final_chi2)
        P.check_eq("same_initial_chi2", rs[0].initial_chi2, res.initial_chi2)
        chi_single = [ir.chi2 for ir in res.iteration_results]
        chi_split = [ir.chi2 for r in rs for ir in r.iteration_results]
        P.check("same_number_of_iteration_records", len(chi_single) == len(chi_split))
        P.check_eq("same_iteration_chi2", chi_split, chi_single)
        # chained calls: each call starts where the previous ended
        for a, b in zip(rs[:-1], rs[1:]):
            P.check_eq("chained_chi2", b.initial_chi2, a.final_chi2)
        if P.symbolic:
            P.check("same_solver_calls", len(env.solves) == len(env2.solves))
            for (A1, r1, _d1), (A2, r2, _d2) in zip(env.solves, env2.solves):
                P.check_eq("same_rhs", r2, r1)
                P.check_eq("same_matrix", A2, A1)

    return fn


def _report_real_se3(P, g):
    """REAL SE(3) odometry edge, the free vertex's stored quaternion of ARBITRARY length (vertices are never normalised by
    the library): the report of a one-iteration run is the graph's chi^2 at the states before / after the update, the
    returned graph IS the final state (final_chi2 == calc_chi2()), and a second call starts exactly where the first ended"""
    from .common import mk_pose

    np = P.np
    env = install_stubs(P, g)
    v0 = g.Vertex(0, mk_pose(P, g, "SE3", "v0"), fixed=True)
    v1 = g.Vertex(1, g.PoseSE3(P.reals("v1", 3), P.reals("v1_rawq", 4)))
    e = g.EdgeOdometry([0, 1], P.sym_matrix("om", 6, psd=True), mk_pose(P, g, "SE3", "z"))
    graph = g.Graph([e], [v0, v1])
    chi_before = graph.calc_chi2()
    import warnings

    with warnings.catch_warnings():
        warnings.simplefilter("ignore")
        r1 = graph.optimize(tol=0.0, max_iter=1, fix_first_pose=False, verbose=False)
    pose_after = v1.pose.to_array()
    chi_after = graph.calc_chi2()
    P.check_eq("initial_chi2_is_graph_chi2", r1.initial_chi2, chi_before)
    P.check_eq("final_chi2_is_calc_chi2_of_returned_graph", r1.final_chi2, chi_after)
    P.check_eq("last_iteration_chi2", r1.iteration_results[-1].chi2, chi_after)
    with warnings.catch_warnings():
        warnings.simplefilter("ignore")
        r2 = graph.optimize(tol=0.0, max_iter=1, fix_first_pose=False, verbose=False)
    P.check_eq("second_call_starts_where_first_ended", r2.initial_chi2, r1.final_chi2)
    P.check_eq("second_call_final", r2.final_chi2, graph.calc_chi2())


def cases(tier):
    mi = 4 if tier == "quick" else 7
    ns = 4 if tier == "quick" else 6
    out = [Case("report-maxiter%d" % m, _report(m), timeout=20, old_timeout=30, validate=3 if tier == "quick" else 8, feas_timeout_ms=3000) for m in range(1, mi + 1)]
    for m in (1, 2, 3) if tier == "quick" else (1, 2, 3, 4):
        out.append(Case("report-singular-maxiter%d" % m, _report(m, isolated=True), timeout=20, old_timeout=30, validate=2, feas_timeout_ms=3000))
    for m in (2, 3):
        out.append(Case("report-anysign-maxiter%d" % m, _report(m, anysign=True), timeout=20, old_timeout=30, validate=2, feas_timeout_ms=3000))
    # (shadow=False: with a non-unit quaternion the 6x6 system is badly conditioned, and the float64 run's SuperLU solution and
    # the shadow run's dense solve differ by 1e-5 relative - the float64 run is still the reachability witness and checks
    # every obligation on the real code)
    out.append(Case("report-real-se3-rawquat", _report_real_se3, timeout=20, old_timeout=30, validate=2, feas_timeout_ms=3000, shadow=False))
    out.append(Case("edited-between-calls", _edited_between_calls, timeout=20, old_timeout=30, validate=3, feas_timeout_ms=3000))
    for n in range(1, ns + 1):
        for parts in _compositions(n):
            out.append(Case("split-%d=%s" % (n, "+".join(map(str, parts))), _split(n, parts), timeout=10, validate=1))
    return out
