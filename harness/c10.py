"""C10 - public pose Jacobian methods are exact derivatives, in the documented shapes."""
from .common import COMPACT, FULL, POINT_OF, POSE_KINDS, Case, mk_pose

PROPERTY = "C10"
EXPLANATION = (
    "The 12 public jacobian_* methods of each of the 4 pose classes are executed symbolically; the operand is replaced by "
    "operand [+] delta through the real boxplus with a dual-number delta, and z3 proves for all operands that the tangent "
    "of the named operation equals J_method . jacobian_boxplus(operand) entry by entry (the derivative along the manifold), "
    "that jacobian_boxplus itself is d(p [+] delta)/d delta, that each *_compact method is the compact rows of the full one, "
    "and that the shapes are the documented ones."
)
BOUNDS = "12 methods x 4 pose types, every entry x every tangent direction; exact real arithmetic; fresh result arrays; state-free (used-then-edited pose objects on either operand side, same object on both sides)"
OUTSIDE = "rounding; ambient (off-manifold) partial derivatives are not asserted (stricter than the property)"
ASSUMPTIONS = [
    "dual-number semantics validated per run against central differences of the real operations",
    "unit quaternions; cos^2+sin^2=1; sqrt contract",
]


def _case(kind):
    pt = POINT_OF[kind]

    def fn(P, g):
        np = P.np
        p = mk_pose(P, g, kind, "p")
        o = mk_pose(P, g, kind, "o")
        q = mk_pose(P, g, pt, "pt")
        n = FULL[kind]
        nc = COMPACT[kind]
        Bp = p.jacobian_boxplus()
        Bo = o.jacobian_boxplus()
        Bq = q.jacobian_boxplus()
        P.check("shape_boxplus", tuple(np.shape(Bp)) == (n, nc))
        # boxplus itself
        D = P.derivative(lambda d: (p + d).to_array(), nc)
        P.check_eq("boxplus", Bp, D, deriv=True)
        ops = [
            ("oplus", lambda a, b: a + b, "jacobian_self_oplus_other_wrt_self", "jacobian_self_oplus_other_wrt_other"),
            ("ominus", lambda a, b: a - b, "jacobian_self_ominus_other_wrt_self", "jacobian_self_ominus_other_wrt_other"),
        ]
        for name, op, m_self, m_other in ops:
            res = op(p, o)
            n_out = len(res.to_array())
            nc_out = res.COMPACT_DIMENSIONALITY
            Js = getattr(p, m_self)(o)
            Jo = getattr(p, m_other)(o)
            Jsc = getattr(p, m_self + "_compact")(o)
            Joc = getattr(p, m_other + "_compact")(o)
            P.check("shape_%s_self" % name, tuple(np.shape(Js)) == (n_out, len(p.to_array())))
            P.check("shape_%s_other" % name, tuple(np.shape(Jo)) == (n_out, len(o.to_array())))
            P.check("shape_%s_self_compact" % name, tuple(np.shape(Jsc)) == (nc_out, len(p.to_array())))
            P.check("shape_%s_other_compact" % name, tuple(np.shape(Joc)) == (nc_out, len(o.to_array())))
            Ds = P.derivative(lambda d: op(p + d, o).to_array(), nc)
            P.check_eq("%s_wrt_self" % name, np.dot(Js, Bp), Ds, deriv=True)
            Do = P.derivative(lambda d: op(p, o + d).to_array(), nc)
            P.check_eq("%s_wrt_other" % name, np.dot(Jo, Bo), Do, deriv=True)
            # compact variants: rows of the compact coordinates of the full Jacobian
            P.check_eq("%s_self_compact_rows" % name, Jsc, np.array(Js)[:nc_out])
            P.check_eq("%s_other_compact_rows" % name, Joc, np.array(Jo)[:nc_out])
            Dsc = P.derivative(lambda d: op(p + d, o).to_compact(), nc)
            P.check_eq("%s_wrt_self_compact" % name, np.dot(Jsc, Bp), Dsc, deriv=True)
            Doc = P.derivative(lambda d: op(p, o + d).to_compact(), nc)
            P.check_eq("%s_wrt_other_compact" % name, np.dot(Joc, Bo), Doc, deriv=True)
        # point action
        res = p + q
        n_out = len(res.to_array())
        Jps = p.jacobian_self_oplus_point_wrt_self(q)
        Jpp = p.jacobian_self_oplus_point_wrt_point(q)
        P.check("shape_point_self", tuple(np.shape(Jps)) == (n_out, len(p.to_array())))
        P.check("shape_point_point", tuple(np.shape(Jpp)) == (n_out, len(q.to_array())))
        Dps = P.derivative(lambda d: ((p + d) + q).to_array(), nc)
        P.check_eq("point_wrt_self", np.dot(Jps, Bp), Dps, deriv=True)
        Dpp = P.derivative(lambda d: (p + (q + d)).to_array(), COMPACT[pt])
        P.check_eq("point_wrt_point", np.dot(Jpp, Bq), Dpp, deriv=True)
        # every call returns a fresh array: editing a result must not leak into later calls
        import numpy

        for mname, args in [("jacobian_self_oplus_other_wrt_self", (o,)), ("jacobian_self_oplus_other_wrt_other", (o,)), ("jacobian_self_ominus_other_wrt_self", (o,)), ("jacobian_self_ominus_other_wrt_other", (o,)), ("jacobian_self_oplus_other_wrt_self_compact", (o,)), ("jacobian_self_oplus_other_wrt_other_compact", (o,)), ("jacobian_self_ominus_other_wrt_self_compact", (o,)), ("jacobian_self_ominus_other_wrt_other_compact", (o,)), ("jacobian_boxplus", ()), ("jacobian_self_oplus_point_wrt_self", (q,)), ("jacobian_self_oplus_point_wrt_point", (q,)), ("jacobian_inverse", ())]:
            first = getattr(p, mname)(*args)
            keep = numpy.array(first, copy=True)
            first *= 0.25
            first[0, :] = 7.0
            again = getattr(p, mname)(*args)
            P.check("%s:fresh_array" % mname, not numpy.shares_memory(first, again))
            P.check_eq("%s:unaffected_by_edit" % mname, again, keep)
        # inverse
        Ji = p.jacobian_inverse()
        P.check("shape_inverse", tuple(np.shape(Ji)) == (n, n))
        Di = P.derivative(lambda d: (p + d).inverse.to_array(), nc)
        P.check_eq("inverse", np.dot(Ji, Bp), Di, deriv=True)

    return fn


ALL_METHODS = ["jacobian_self_oplus_other_wrt_self", "jacobian_self_oplus_other_wrt_other", "jacobian_self_ominus_other_wrt_self", "jacobian_self_ominus_other_wrt_other"]
ALL_METHODS += [m + "_compact" for m in ALL_METHODS]


def _all_jacobians(p, o, q):
    out = {m: getattr(p, m)(o) for m in ALL_METHODS}
    out["jacobian_boxplus"] = p.jacobian_boxplus()
    out["jacobian_inverse"] = p.jacobian_inverse()
    out["jacobian_self_oplus_point_wrt_self"] = p.jacobian_self_oplus_point_wrt_self(q)
    out["jacobian_self_oplus_point_wrt_point"] = p.jacobian_self_oplus_point_wrt_point(q)
    return out


def _state_free(kind):
    """the Jacobians are functions of the operand VALUES only: (a) a pose object that was used once and whose components
    were then overwritten in place gives the Jacobians of a fresh pose with the new values (nothing cached on the
    object); (b) passing the very same object as both operands gives what an equal-valued copy gives"""
    pt = POINT_OF[kind]

    def fn(P, g):
        import numpy

        from .common import pose_cls

        np = P.np
        cls = pose_cls(g, kind)
        p = mk_pose(P, g, kind, "p", wrapped=True)
        o = mk_pose(P, g, kind, "o", wrapped=True)
        q = mk_pose(P, g, pt, "pt")
        _all_jacobians(p, o, q)  # first use
        _all_jacobians(o, p, q)
        new = mk_pose(P, g, kind, "pnew", wrapped=True)
        p[:] = new.to_array()
        got = _all_jacobians(p, o, q)
        ref = _all_jacobians(new, o, q)
        for m in got:
            P.check_eq("after_edit:%s" % m, got[m], ref[m])
        got2 = _all_jacobians(o, p, q)  # the edited object as the OTHER operand
        ref2 = _all_jacobians(o, new, q)
        for m in ALL_METHODS:
            P.check_eq("after_edit_other:%s" % m, got2[m], ref2[m])
        # an identity pose handed out earlier is edited by its owner: no Jacobian may change
        before_edit = _all_jacobians(o, new, q)
        ident = cls.identity()
        ident[0] = ident[0] + 0.3
        if kind == "SE3":
            ident[3:] = numpy.array([0.5, 0.5, 0.5, 0.5])
        after_edit = _all_jacobians(o, new, q)
        for m in before_edit:
            P.check_eq("identity_edit_does_not_leak:%s" % m, after_edit[m], before_edit[m])
        # the same object on both sides
        twin = cls(*_ctor(kind, numpy.array(o.to_array(), copy=True)))
        for m in ALL_METHODS:
            P.check_eq("same_object:%s" % m, getattr(o, m)(o), getattr(o, m)(twin))

    return fn


def _ctor(kind, arr):
    if kind in ("R2", "R3"):
        return (arr,)
    if kind == "SE2":
        return (arr[:2], arr[2])
    return (arr[:3], arr[3:])


def cases(tier):
    out = [Case(k, _case(k), timeout=20, old_timeout=30, validate=2 if tier == "quick" else 6) for k in POSE_KINDS]
    out += [Case("state-free-" + k, _state_free(k), timeout=20, old_timeout=30, validate=2) for k in POSE_KINDS]
    return out
