"""C18 - graph construction binds edges by vertex id and rejects ill-typed edges."""
import itertools

from .common import COMPACT, POSE_KINDS, Case, mk_pose

PROPERTY = "C18"
EXPLANATION = (
    "The real Graph.__init__/_initialize, BaseEdge._is_valid, EdgeOdometry.is_valid and EdgeLandmark.is_valid are executed "
    "with symbolic vertex ids (pairwise distinct), FREE symbolic edge ids (whether an id is present, and which vertex it "
    "binds to, is decided by the solver through the forking dictionary lookup) and a symbolic information shape (r, c) of "
    "positive integers, for every combination of edge kind x vertex pose types x measurement type (4 pose types, raw ndarray, "
    "float) x offset type (4 pose types, None) x number of ids 1..3. On every path z3 checks that construction succeeds "
    "exactly when a reference predicate written from the class docstrings holds for the vertices the ids actually bind to "
    "(two vertices; odometry: both poses and the measurement of one type; landmark: offset of the first pose's type and "
    "measurement of the second pose's type; information n x n with n the compact dimension of the measured type; every id "
    "present), that on success edge.vertices[k] IS the listed vertex whose id equals edge.vertex_ids[k], and that it raises otherwise."
)
BOUNDS = {"quick": "seeded third of the structural cases (edge kind x 10 unordered pose-type pairs x 6 measurement types x 5 offset types x 1..3 ids), all id bindings and all shapes symbolic", "thorough": "all 1080 structural cases"}
BOUNDS = {k: v + "; stale variants (edge pre-bound to foreign vertices of the same ids); twin variants (a consistent edge of the same class listed first)" for k, v in BOUNDS.items()}
OUTSIDE = "(stale-* cases: the edge object arrives with vertices already populated by an earlier binding) edges of custom classes (their is_valid is user code); information objects are represented by their shape only"
ASSUMPTIONS = ["vertex ids pairwise distinct", "information shape entries are positive integers"]


class ShapeOnly:
    """stands for an information matrix of which the validity predicates may read only .shape / .size / .ndim"""

    def __init__(self, r, c):
        self.shape = (r, c)
        self.size = r * c
        self.ndim = 2

    def __len__(self):
        from symrun.scalars import Unsupported

        raise Unsupported("validity predicate called len(information)")

    def __getattr__(self, name):
        from symrun.scalars import Unsupported

        raise Unsupported("validity predicate read information.%s" % name)


def _value(P, g, typ, name):
    if typ in POSE_KINDS:
        return mk_pose(P, g, typ, name, wrapped=True)
    if typ == "ndarray":
        return P.vector(name, 2)
    if typ == "float":
        return P.real(name)
    return None


def _case(ekind, vtypes, est_type, off_type, arity, stale=False, twin=False):
    def fn(P, g):
        np = P.np
        nv = len(vtypes)
        vids = [P.int("vid%d" % i) for i in range(nv)]
        P.distinct(vids)
        verts = [g.Vertex(vids[i], mk_pose(P, g, vtypes[i], "v%d" % i, wrapped=True)) for i in range(nv)]
        eids = [P.int("eid%d" % k, lo=-3, hi=3) for k in range(arity)]
        if P.symbolic:
            r, c = P.int("r"), P.int("c")
            P.assume(P.both(r >= 1, c >= 1))
            info = ShapeOnly(r, c)
        else:
            r, c = P.int("r", lo=1, hi=7), P.int("c", lo=1, hi=7)
            info = np.zeros((r, c))
        est = _value(P, g, est_type, "z")
        if ekind == "odom":
            e = g.EdgeOdometry(list(eids), info, est)
        else:
            e = g.EdgeLandmark(list(eids), info, est, _value(P, g, off_type, "off"), offset_id=0)
        if stale:
            # the edge arrives already bound (e.g. it was part of another graph): to vertices that carry the named ids but
            # are NOT the new graph's vertices and are all of the measurement's type
            st = est_type if est_type in POSE_KINDS else "R2"
            e.vertices = [g.Vertex(eids[k], mk_pose(P, g, st, "stale%d" % k, wrapped=True)) for k in range(arity)]
        edges = [e]
        if twin:
            # a CONSISTENT edge of the same class between the first two listed vertices comes first in the edge list: every
            # edge is validated, not one representative per kind
            n_t = COMPACT[vtypes[1]]
            if P.symbolic:
                # the same kind of shape object as the edge under test (engine integers hash alike, so that a dictionary
                # keyed on shapes compares them)
                from symrun.scalars import SymInt

                info_t = ShapeOnly(SymInt(n_t), SymInt(n_t))
            else:
                info_t = np.zeros((n_t, n_t))
            if ekind == "odom":
                first = g.EdgeOdometry([vids[0], vids[1]], info_t, mk_pose(P, g, vtypes[0], "tz", wrapped=True))
            else:
                first = g.EdgeLandmark([vids[0], vids[1]], info_t, mk_pose(P, g, vtypes[1], "tz", wrapped=True), mk_pose(P, g, vtypes[0], "toff", wrapped=True), offset_id=0)
            edges = [first, e]
        raised = None
        try:
            graph = g.Graph(edges, list(verts))
        except (KeyError, AssertionError) as ex:
            raised = ex
        # which vertex does every id bind to (decided on this path)
        bound = []
        for k in range(arity):
            hit = None
            for i in range(nv):
                if P.is_true(eids[k] == vids[i]):
                    hit = i
                    break
            bound.append(hit)
        ok = arity == 2 and all(b is not None for b in bound)
        if ok:
            t0, t1 = vtypes[bound[0]], vtypes[bound[1]]
            if ekind == "odom":
                ok = t0 == t1 and est_type == t0
                n = COMPACT[t0]
            else:
                ok = off_type == t0 and est_type == t1
                n = COMPACT[t1]
            if ok:
                ok = P.is_true(r == n) and P.is_true(c == n)
        if ok:
            P.check("consistent_edge_accepted", raised is None)
            if raised is None:
                for k in range(arity):
                    P.check("bound_to_named_vertex_%d" % k, e.vertices[k] is verts[bound[k]])
                    P.check("bound_id_matches_%d" % k, e.vertices[k].id == e.vertex_ids[k])
                P.check("vertex_list_untouched", graph._vertices == verts and len(graph._edges) == len(edges))
        else:
            P.check("inconsistent_edge_rejected", raised is not None)

    return fn


def all_structs():
    out = []
    pairs = list(itertools.combinations_with_replacement(POSE_KINDS, 2))
    ests = POSE_KINDS + ["ndarray", "float"]
    offs = POSE_KINDS + ["none"]
    for vt in pairs:
        for est in ests:
            for arity in (1, 2, 3):
                out.append(("odom", list(vt), est, None, arity))
                for off in offs:
                    out.append(("lmk", list(vt), est, off, arity))
    # a third listed vertex (ids may bind to any of the three)
    for vt in (["SE2", "R2", "SE2"], ["SE3", "R3", "R3"], ["R2", "SE2", "SE3"]):
        out.append(("odom", vt, vt[0], None, 2))
        out.append(("lmk", vt, vt[1], vt[0], 2))
    return out


def _name(s):
    ek, vt, est, off, ar = s
    return "%s-%s-z%s-o%s-n%d" % (ek, ".".join(vt), est, off, ar)


def cases(tier):
    structs = all_structs()
    if tier == "quick":
        import random

        rnd = random.Random(2024)
        keep = [s for s in structs if s[4] == 2 and ((s[0] == "odom" and s[2] == s[1][0]) or (s[0] == "lmk" and s[3] == s[1][0] and s[2] in s[1]))]
        rest = [s for s in structs if s not in keep]
        structs = keep + rnd.sample(rest, len(rest) // 4)
    out = [Case(_name(s), _case(*s), timeout=10, validate=2, feas_timeout_ms=1000) for s in structs]
    stale = [s for s in all_structs() if s[4] == 2 and s[2] in POSE_KINDS and s[1][0] != s[1][1]]
    if tier == "quick":
        stale = stale[::5]
    out += [Case("stale-" + _name(s), _case(*s, stale=True), timeout=10, validate=2, feas_timeout_ms=1000) for s in stale]
    twins = [s for s in all_structs() if s[4] == 2 and len(s[1]) == 2 and (s[0] == "lmk" or s[1][0] == s[1][1])]
    if tier == "quick":
        twins = twins[::4]
    out += [Case("twin-" + _name(s), _case(*s, twin=True), timeout=10, validate=2, feas_timeout_ms=1000) for s in twins]
    return out
