"""C08 - results do not depend on representation choices of the same physical graph."""
import itertools

from .common import COMPACT, Case, mk_pose
from .graphkit import dense, install_stubs, make_free_edge_class, structure_graph

PROPERTY = "C08"
EXPLANATION = (
    "Relations between two symbolic runs of the real code. (a) Permuting the vertex list, permuting the edge list and "
    "relabelling vertex ids (symbolic distinct ids, old and new) of a graph with free-symbol edges: chi^2 is identical and "
    "the assembled gradient/Hessian of the second graph are the block permutation of the first (so the unique solution and "
    "the per-vertex updates coincide). (b) PoseSE2(x, y, theta + 2*pi*m) equals PoseSE2(x, y, theta) componentwise for a "
    "symbolic integer m. (c) Negating the unit quaternion of a vertex / measurement / offset, in every sign pattern, for "
    "SE(3) odometry and landmark edges with a symbolic symmetric information matrix: translational error unchanged, "
    "rotational error changes at most by a global sign, chi^2 / J^T Omega J / J^T Omega e unchanged for block-diagonal "
    "information (all edges) and for FULL information (landmark edges; for odometry edges this is the recorded known "
    "finding). (d) Replacing an edge by two edges with half the information, or scaling all information by s>0: b and H "
    "are unchanged resp. scaled by s (fixed rows stay identity/zero) and chi^2 scales by s, so the optimum is unchanged."
)
BOUNDS = "(a) 6 structures x all vertex permutations x edge reversal; (b) symbolic m; (c) all 2^k sign patterns; (d) 4 structures"
OUTSIDE = "rounding; the optimisation trajectory itself is not re-run: equality of the linear systems (up to the permutation) plus C03 gives equal updates"
ASSUMPTIONS = ["unit quaternions", "information symmetric", "ids distinct"]


# ---------------------------------------------------------------- (a) permutations / relabelling
def _perm_case(kinds, edges, fixed, vperm, eperm):
    def fn(P, g):
        np = P.np
        env = install_stubs(P, g)
        g1, verts1, eobjs1, ids1 = structure_graph(P, g, kinds, edges, fixed)
        FreeEdge = make_free_edge_class(g)
        nv = len(kinds)
        new_ids = [P.int("nid%d" % i) for i in range(nv)]
        P.distinct(new_ids)
        # same physical vertices (same pose values, same fixed flags), listed in the order vperm, with new ids
        verts2 = [None] * nv
        order2 = []
        for pos, i in enumerate(vperm):
            v = g.Vertex(new_ids[i], verts1[i].pose.copy(), fixed=verts1[i].fixed)
            verts2[i] = v
            order2.append(v)
        if P.symbolic:
            from symrun.scalars import SymInt

            mk = lambda x: SymInt(x.v)  # noqa
        else:
            mk = lambda x: x  # noqa
        eobjs2 = []
        for k in eperm:
            e = eobjs1[k]
            eobjs2.append(FreeEdge([mk(new_ids[vi]) for vi in edges[k]], e.information, e._err, e._jacs))
        g2 = g.Graph(eobjs2, order2)
        P.check_eq("chi2_same", g2.calc_chi2(), g1.calc_chi2())
        for gr in (g1, g2):
            gr._fixed_gradient_indices = {v.gradient_index for v in gr._vertices if v.fixed}
            gr._calc_chi2_gradient_hessian()
        H1, H2 = dense(g1._hessian), dense(g2._hessian)
        b1, b2 = np.array(g1._gradient), np.array(g2._gradient)
        dims = [COMPACT[k] for k in kinds]
        for i in range(nv):
            o1, o2 = verts1[i].gradient_index, verts2[i].gradient_index
            P.check_eq("gradient_block_%d" % i, b2[o2 : o2 + dims[i]], b1[o1 : o1 + dims[i]])
            for j in range(nv):
                p1, p2 = verts1[j].gradient_index, verts2[j].gradient_index
                P.check_eq("hessian_block_%d_%d" % (i, j), H2[o2 : o2 + dims[i], p2 : p2 + dims[j]], H1[o1 : o1 + dims[i], p1 : p1 + dims[j]])
        if not P.symbolic:
            import warnings

            with warnings.catch_warnings():
                warnings.simplefilter("ignore")
                g1.optimize(max_iter=1, fix_first_pose=False, verbose=False)
                g2.optimize(max_iter=1, fix_first_pose=False, verbose=False)
            if all(np.all(np.isfinite(v.pose)) for v in verts1) and np.linalg.cond(H1) < 1e8:
                for i in range(nv):
                    P.check_eq("optimized_pose_%d" % i, verts2[i].pose.to_array(), verts1[i].pose.to_array(), tol=1e-6)

    return fn


def _relabel_optimize(kinds, edges):
    """the same graph with other (arbitrary, distinct) vertex ids, same list order: optimize(fix_first_pose=True) holds the
    same physical vertex (the FIRST LISTED one, whatever its id) and moves every vertex to the same pose (the two linear
    systems are the same terms, the solver stub is a deterministic function of them)"""

    def fn(P, g):
        from .graphkit import functional_solver

        np = P.np
        env = install_stubs(P, g, solver=functional_solver(P) if P.symbolic else None)
        g1, verts1, eobjs1, ids1 = structure_graph(P, g, kinds, edges, set())
        FreeEdge = make_free_edge_class(g)
        nv = len(kinds)
        new_ids = [P.int("nid%d" % i) for i in range(nv)]
        P.distinct(new_ids)
        verts2 = [g.Vertex(new_ids[i], verts1[i].pose.copy()) for i in range(nv)]
        if P.symbolic:
            from symrun.scalars import SymInt

            mk = lambda x: SymInt(x.v)  # noqa
        else:
            mk = lambda x: x  # noqa
        eobjs2 = [FreeEdge([mk(new_ids[vi]) for vi in edges[k]], e.information, e._err, e._jacs) for k, e in enumerate(eobjs1)]
        g2 = g.Graph(eobjs2, verts2)
        import warnings

        with warnings.catch_warnings():
            warnings.simplefilter("ignore")
            g1.optimize(tol=0.0, max_iter=1, fix_first_pose=True, verbose=False)
            g2.optimize(tol=0.0, max_iter=1, fix_first_pose=True, verbose=False)
        for i in range(nv):
            P.check("same_fixed_flag_%d" % i, verts1[i].fixed == verts2[i].fixed and verts1[i].fixed == (i == 0))
            P.check_eq("same_optimized_pose_%d" % i, verts2[i].pose.to_array(), verts1[i].pose.to_array(), tol=1e-6)

    return fn


def _real_chi2_perm(P, g):
    """chi^2 of a graph of real edges is independent of list orders and ids"""
    from .common import mk_landmark, mk_odometry

    def build(order_e, order_v, idmap):
        e1, a, b = mk_odometry(P, g, "SE2", info=P.sym_matrix("o1", 3), ids=(idmap[0], idmap[1]), names=("a", "b", "z1"))
        e2, b2, l = mk_landmark(P, g, "SE2", info=P.sym_matrix("o2", 2), ids=(idmap[1], idmap[2]), names=("b", "l", "z2", "off"))
        e1.vertices = None
        e2.vertices = None
        vs = [a, b, l]
        return g.Graph([[e1, e2][k] for k in order_e], [vs[k] for k in order_v])

    base = build((0, 1), (0, 1, 2), (0, 1, 2)).calc_chi2()
    for oe in ((0, 1), (1, 0)):
        for ov in itertools.permutations(range(3)):
            for idmap in ((0, 1, 2), (-7, 10**12, 3)):
                P.check_eq("chi2_real_perm", build(oe, ov, idmap).calc_chi2(), base)


# ---------------------------------------------------------------- (b) 2 pi shifts
def _two_pi(P, g):
    np = P.np
    x, y = P.reals("t", 2)
    th = P.angle("th", big=True)
    m = P.int("m", lo=-5, hi=5)
    a = g.PoseSE2([x, y], th)
    b = g.PoseSE2([x, y], th + 2 * np.pi * m)
    P.check_eq("pose_same", b.to_array(), a.to_array(), tol=1e-6)


# ---------------------------------------------------------------- (c) quaternion signs
def _neg(g, p, s):
    return g.PoseSE3(p[:3], [s * p[3], s * p[4], s * p[5], s * p[6]])


def _quat_sign(kind, signs, full):
    """kind: 'odom' (p1, p2, z) or 'lmk' (p1, off); signs: tuple of +-1; full: information with cross terms or block-diagonal"""

    def fn(P, g):
        np = P.np
        if kind == "odom":
            n = 6
            om = P.sym_matrix("om", n, psd=True)
            if not full:
                om = np.array(om, dtype=object if P.symbolic else float)
                om[:3, 3:] = 0.0
                om[3:, :3] = 0.0
            p1, p2, z = (mk_pose(P, g, "SE3", nm) for nm in ("p1", "p2", "z"))
            v = [g.Vertex(0, p1), g.Vertex(1, p2)]
            e = g.EdgeOdometry([0, 1], om, z, vertices=v)
            w = [g.Vertex(0, _neg(g, p1, signs[0])), g.Vertex(1, _neg(g, p2, signs[1]))]
            e2 = g.EdgeOdometry([0, 1], om, _neg(g, z, signs[2]), vertices=w)
            s = signs[0] * signs[1] * signs[2]
        else:
            n = 3
            om = P.sym_matrix("om", n, psd=True)
            p1, off = mk_pose(P, g, "SE3", "p1"), mk_pose(P, g, "SE3", "off")
            l, z = mk_pose(P, g, "R3", "l"), mk_pose(P, g, "R3", "z")
            v = [g.Vertex(0, p1), g.Vertex(1, l)]
            e = g.EdgeLandmark([0, 1], om, z, off, offset_id=0, vertices=v)
            w = [g.Vertex(0, _neg(g, p1, signs[0])), g.Vertex(1, l.copy())]
            e2 = g.EdgeLandmark([0, 1], om, z, _neg(g, off, signs[1]), offset_id=0, vertices=w)
            s = 1.0
        err, err2 = e.calc_error(), e2.calc_error()
        P.check_eq("err_translation", err2[:3], err[:3])
        if kind == "odom":
            # the rotational error of the same physical edge may differ by a common sign at most (which sign is the
            # implementation's choice: raw vector part today, a canonical representative after a repair)
            same, neg = True, True
            for i in range(3, 6):
                same = P.both(same, err2[i] - err[i] <= 1e-9) if not P.symbolic else P.both(same, err2[i] == err[i])
                neg = P.both(neg, err2[i] + err[i] <= 1e-9) if not P.symbolic else P.both(neg, err2[i] == -err[i])
            if not P.symbolic:
                same = all(abs(float(err2[i]) - float(err[i])) <= 1e-9 * (1 + abs(float(err[i]))) for i in range(3, 6))
                neg = all(abs(float(err2[i]) + float(err[i])) <= 1e-9 * (1 + abs(float(err[i]))) for i in range(3, 6))
            P.check("err_rotation_up_to_sign", P.either(same, neg))
        tag = "full" if full else "blockdiag"
        P.check_eq("chi2_%s" % tag, e2.calc_chi2(), e.calc_chi2())
        J, J2 = e.calc_jacobians(), e2.calc_jacobians()
        for a in range(2):
            P.check_eq("b_%s_%d" % (tag, a), np.dot(np.dot(np.transpose(err2), om), J2[a]), np.dot(np.dot(np.transpose(err), om), J[a]))
            for b in range(a, 2):
                P.check_eq("H_%s_%d%d" % (tag, a, b), np.dot(np.dot(np.transpose(J2[a]), om), J2[b]), np.dot(np.dot(np.transpose(J[a]), om), J[b]))

    return fn


# ---------------------------------------------------------------- (d) splitting / scaling
def _split_scale(kinds, edges, fixed, which):
    def fn(P, g):
        np = P.np
        env = install_stubs(P, g)
        g1, verts1, eobjs1, ids1 = structure_graph(P, g, kinds, edges, fixed, symbolic_ids=False)
        FreeEdge = make_free_edge_class(g)
        s = P.positive("s")
        verts2 = [g.Vertex(v.id, v.pose.copy(), fixed=v.fixed) for v in verts1]
        verts3 = [g.Vertex(v.id, v.pose.copy(), fixed=v.fixed) for v in verts1]
        split, scaled = [], []
        for k, e in enumerate(eobjs1):
            if k == which:
                split.append(FreeEdge(list(e.vertex_ids), e.information / 2.0, e._err, e._jacs))
                split.append(FreeEdge(list(e.vertex_ids), e.information / 2.0, e._err, e._jacs))
            else:
                split.append(FreeEdge(list(e.vertex_ids), e.information, e._err, e._jacs))
            scaled.append(FreeEdge(list(e.vertex_ids), s * np.array(e.information), e._err, e._jacs))
        g2 = g.Graph(split, verts2)
        g3 = g.Graph(scaled, verts3)
        P.check_eq("split_chi2", g2.calc_chi2(), g1.calc_chi2())
        P.check_eq("scaled_chi2", g3.calc_chi2(), s * g1.calc_chi2())
        for gr in (g1, g2, g3):
            gr._fixed_gradient_indices = {v.gradient_index for v in gr._vertices if v.fixed}
            gr._calc_chi2_gradient_hessian()
        H1, H2, H3 = dense(g1._hessian), dense(g2._hessian), dense(g3._hessian)
        b1, b2, b3 = np.array(g1._gradient), np.array(g2._gradient), np.array(g3._gradient)
        P.check_eq("split_gradient", b2, b1)
        P.check_eq("split_hessian", H2, H1)
        dims = [COMPACT[k] for k in kinds]
        offs = [sum(dims[:i]) for i in range(len(kinds))]
        free_idx = [offs[i] + c for i in range(len(kinds)) if i not in fixed for c in range(dims[i])]
        fixed_idx = [offs[i] + c for i in range(len(kinds)) if i in fixed for c in range(dims[i])]
        for r in free_idx:
            P.check_eq("scaled_gradient_row", b3[r], s * b1[r])
            for c in free_idx:
                P.check_eq("scaled_hessian_free", H3[r][c], s * H1[r][c])
            for c in fixed_idx:
                P.check_eq("scaled_hessian_cross", H3[r][c], 0.0)
        for r in fixed_idx:
            P.check_eq("scaled_fixed_rhs", b3[r], 0.0)
            for c in range(len(b1)):
                P.check_eq("scaled_fixed_row", H3[r][c], 1.0 if c == r else 0.0)

    return fn


PERM_STRUCTS = [
    (["SE2", "R2", "SE2"], [(0, 1), (2, 1), (0, 2)], {0}),
    (["R2", "SE2"], [(1, 0), (0, 1)], set()),
    (["SE3", "R3", "R2"], [(0, 1), (2,)], {2}),
    (["R3", "R2", "SE2"], [(0, 1, 2), (2, 0)], {1}),
]


def cases(tier):
    out = []
    for si, (kinds, edges, fixed) in enumerate(PERM_STRUCTS):
        nv, ne = len(kinds), len(edges)
        vperms = list(itertools.permutations(range(nv)))
        eperms = list(itertools.permutations(range(ne)))
        if tier == "quick":
            vperms = vperms[1:] if len(vperms) <= 3 else [vperms[1], vperms[3], vperms[-1]]
            eperms = [eperms[-1]]
        for vp in vperms:
            for ep in eperms:
                out.append(Case("perm%d-v%s-e%s" % (si, "".join(map(str, vp)), "".join(map(str, ep))), _perm_case(kinds, edges, fixed, vp, ep), timeout=10, validate=1, feas_timeout_ms=1000))
    for si, (kinds, edges, fixed) in enumerate(PERM_STRUCTS[:2]):
        out.append(Case("relabel-optimize%d" % si, _relabel_optimize(kinds, edges), timeout=10, validate=1, feas_timeout_ms=1000, val_tol=1e-4))
    out.append(Case("perm-real-chi2", _real_chi2_perm, timeout=20, validate=1, cert_first=True))
    out.append(Case("twopi", _two_pi, timeout=20, validate=3))
    for signs in itertools.product((1.0, -1.0), repeat=3):
        if signs == (1.0, 1.0, 1.0):
            continue
        nm = "".join("p" if s > 0 else "n" for s in signs)
        out.append(Case("quatsign-odom-SE3-blockdiag-%s" % nm, _quat_sign("odom", signs, False), timeout=5, old_timeout=10, validate=1, shards=4))
        odd = signs[0] * signs[1] * signs[2] < 0
        out.append(Case("quatsign-odom-SE3-full-%s-%s" % ("odd" if odd else "even", nm), _quat_sign("odom", signs, True), timeout=5, old_timeout=10, validate=1, search=10, shards=1 if odd else 4))
    for signs in itertools.product((1.0, -1.0), repeat=2):
        if signs == (1.0, 1.0):
            continue
        nm = "".join("p" if s > 0 else "n" for s in signs)
        out.append(Case("quatsign-lmk-SE3-full-%s" % nm, _quat_sign("lmk", signs, True), timeout=5, old_timeout=10, validate=1, shards=2))
    for si, (kinds, edges, fixed) in enumerate(PERM_STRUCTS):
        for which in range(len(edges)) if tier == "thorough" else (0,):
            out.append(Case("splitscale%d-e%d" % (si, which), _split_scale(kinds, edges, fixed, which), timeout=10, validate=1, feas_timeout_ms=1000))
    return out
