"""C15 - queries are pure; optimize changes only vertex poses."""
from .common import COMPACT, POINT_OF, POSE_KINDS, Case, mk_pose
from .graphkit import install_stubs, structure_graph

PROPERTY = "C15"
EXPLANATION = (
    "One inductive step from an arbitrary valid symbolic state: every numeric array reachable from a graph built from the "
    "real classes (vertex poses, edge estimates, information matrices, offsets), every fixed flag, id and list order is "
    "snapshotted element by element (solver terms), one query is executed symbolically, and z3 proves every element equal to "
    "its snapshot on every path; the query is run twice and its two results are proved equal. Queries: calc_error, calc_chi2, "
    "analytic calc_jacobians, the numerical BaseEdge.calc_jacobians/_calc_jacobian (which temporarily overwrites vertex "
    "poses), calc_chi2_gradient_hessian, Graph.calc_chi2, Graph._calc_chi2_gradient_hessian, all equals, all to_g2o, every pose "
    "operator / copy / to_array / to_compact / to_matrix / jacobian_*. Because each query preserves the whole state for all "
    "values, every interleaving of any length does. Aliasing is numpy's own (object arrays are real ndarrays), copies are "
    "checked with np.shares_memory and by writing into the copy. optimize() (real edges, max_iter=1; free-symbol edges, "
    "max_iter<=3 on all paths) leaves everything except vertex poses and vertices[0].fixed unchanged."
)
BOUNDS = "graphs: {SE2,SE2,R2}, {SE3,SE3,R3}, {R2,R2}, {R3,R3} with odometry + landmark + a custom numerically differentiated edge; 20 query kinds; one step (inductive); optimize() frame cases incl. information matrices that are not symmetric; IEEE cases: bit-exact restore and bit-identical repeated numerical Jacobians (coordinates up to 1e11)"
OUTSIDE = "bit-level floating point of everything except the numerical-differentiation restore (fp-restore cases: IEEE binary64 terms, bit-identical pose components); elsewhere equality is proved on exact real terms"
ASSUMPTIONS = ["valid state: SE(2) angles in [-pi,pi), unit quaternions", "wrap / sqrt / trig contracts", "spsolve stub returns an arbitrary vector"]


def distance_edge_class(g, np):
    if getattr(g, "_c15_distance_edge", None) is None:

        class DistanceEdge(g.BaseEdge):
            """custom edge relying on the numerical-differentiation fallback"""

            def calc_error(self):
                d = (self.vertices[0].pose - self.vertices[1].pose).position
                s = 0.0
                for x in d:
                    s = s + x * x
                return np.array([s - self.estimate])

            def is_valid(self):
                return self._is_valid()

        g._c15_distance_edge = DistanceEdge
    return g._c15_distance_edge


def build(P, g, fam, aliased=False):
    """a small graph of real edges for one family.  aliased: ONE pose object serves as vertex 1's initial pose, as the
    odometry measurement and as the landmark edge's offset, and the landmark's pose object is also the landmark
    measurement (users build graphs like that: ``step = PoseSE2(...)`` reused everywhere)"""
    np = P.np
    pose_k, pt_k = fam, POINT_OF[fam]
    v0 = g.Vertex(0, mk_pose(P, g, pose_k, "v0", wrapped=True))
    v1 = g.Vertex(1, mk_pose(P, g, pose_k, "v1", wrapped=True))
    v2 = g.Vertex(2, mk_pose(P, g, pt_k, "v2", wrapped=True))
    n, m = COMPACT[pose_k], COMPACT[pt_k]
    if aliased:
        e_od = g.EdgeOdometry([0, 1], P.sym_matrix("omA", n, psd=True), v1.pose)
        e_lm = g.EdgeLandmark([1, 2], P.sym_matrix("omB", m, psd=True), v2.pose, v1.pose, offset_id=3)
    else:
        e_od = g.EdgeOdometry([0, 1], P.sym_matrix("omA", n, psd=True), mk_pose(P, g, pose_k, "zA", wrapped=True))
        e_lm = g.EdgeLandmark([1, 2], P.sym_matrix("omB", m, psd=True), mk_pose(P, g, pt_k, "zB"), mk_pose(P, g, pose_k, "off", wrapped=True), offset_id=3)

    DistanceEdge = distance_edge_class(g, np)
    e_cu = DistanceEdge([0, 1], np.array([[P.real("omC", lo=0.1, hi=5.0)]]), P.real("zC"))
    graph = g.Graph([e_od, e_lm, e_cu], [v2, v0, v1])  # deliberately neither sorted by id nor by type
    return graph, [v0, v1, v2], [e_od, e_lm, e_cu]


def snapshot(graph, verts, edges):
    snap = {"vorder": [id(v) for v in graph._vertices], "eorder": [id(e) for e in graph._edges]}
    for i, v in enumerate(verts):
        snap["v%d.pose" % i] = v.pose.to_array()
        snap["v%d.type" % i] = type(v.pose)
        snap["v%d.fixed" % i] = v.fixed
        snap["v%d.id" % i] = v.id
        snap["v%d.gi" % i] = v.gradient_index
    for k, e in enumerate(edges):
        est = e.estimate
        snap["e%d.estimate" % k] = est.to_array() if hasattr(est, "to_array") else est
        snap["e%d.info" % k] = P_copy(e.information)
        snap["e%d.ids" % k] = list(e.vertex_ids)
        snap["e%d.bound" % k] = [id(x) for x in e.vertices]
        if hasattr(e, "offset"):
            snap["e%d.offset" % k] = e.offset.to_array()
            snap["e%d.offset_id" % k] = e.offset_id
    return snap


def P_copy(a):
    import numpy

    return numpy.array(a, copy=True)


def compare(P, tag, before, after, skip=()):
    import numpy

    for key in before:
        if any(key.endswith(s) for s in skip):
            continue
        b, a = before[key], after[key]
        if isinstance(b, numpy.ndarray) or (hasattr(b, "__len__") and key.endswith((".pose", ".estimate", ".info", ".offset"))):
            P.check_eq("%s:%s" % (tag, key), a, b)
        elif key.endswith(".estimate"):
            P.check_eq("%s:%s" % (tag, key), a, b)
        else:
            P.check("%s:%s" % (tag, key), a == b)


def same_result(P, tag, r1, r2):
    """two results of the same query are termwise identical"""
    import numpy

    if isinstance(r1, (list, tuple)):
        P.check("%s:len" % tag, isinstance(r2, (list, tuple)) and len(r1) == len(r2))
        for i, (a, b) in enumerate(zip(r1, r2)):
            same_result(P, "%s.%d" % (tag, i), a, b)
    elif P.is_boolean(r1) or P.is_boolean(r2):
        P.check("%s:same" % tag, P.same_truth(r1, r2))
    elif isinstance(r1, (str, type(None))):
        P.check("%s:same" % tag, r1 == r2)
    elif isinstance(r1, int) and not isinstance(r1, bool):
        P.check("%s:same" % tag, r1 == r2)
    else:
        P.check_eq("%s:same" % tag, r2, r1)


def edge_queries(g, numerical):
    q = [
        ("calc_error", lambda e: e.calc_error()),
        ("calc_chi2", lambda e: e.calc_chi2()),
        ("calc_jacobians", lambda e: e.calc_jacobians()),
        ("chi2_gradient_hessian", lambda e: e.calc_chi2_gradient_hessian()),
    ]
    if numerical:
        q.append(("numerical_jacobians", lambda e: g.BaseEdge.calc_jacobians(e)))
    return q


def _edge_case(fam, which, qname):
    def fn(P, g):
        graph, verts, edges = build(P, g, fam)
        e = edges[which]
        query = dict(edge_queries(g, True))[qname]
        before = snapshot(graph, verts, edges)
        poses_before = [v.pose for v in verts]
        r1 = query(e)
        mid = snapshot(graph, verts, edges)
        r2 = query(e)
        after = snapshot(graph, verts, edges)
        compare(P, "after1", before, mid)
        compare(P, "after2", before, after)
        same_result(P, "repeat", r1, r2)
        for i, v in enumerate(verts):
            P.check("pose_type_%d" % i, type(v.pose) is type(poses_before[i]))

    return fn


def _graph_case(fam, qname):
    def fn(P, g):
        env = install_stubs(P, g)
        graph, verts, edges = build(P, g, fam)
        graph2, verts2, edges2 = build(P, g, fam)  # same symbols: an equal graph
        import io

        def export(x):
            if P.symbolic:
                return x.to_g2o()
            return x.to_g2o()

        queries = {
            "graph_chi2": lambda: graph.calc_chi2(),
            "graph_gradient_hessian": lambda: (graph._calc_chi2_gradient_hessian(), graph._chi2, list(graph._gradient))[1:],
            "graph_equals": lambda: graph.equals(graph2),
            "edge_equals": lambda: [e.equals(f) for e, f in zip(edges, edges2)] + [edges[0].equals(edges[1]), edges[1].equals(edges[0])],
            "vertex_equals": lambda: [v.equals(w) for v, w in zip(verts, verts2)] + [verts[0].equals(verts[2])],
            "vertex_to_g2o": lambda: [v.to_g2o() for v in verts] if fam in ("SE2", "SE3") else [verts[0].to_g2o()],
            "edge_to_g2o": lambda: [e.to_g2o() for e in edges[:1] + edges[2:]] if fam in ("SE2", "SE3") else [edges[2].to_g2o()],
            "graph_to_g2o": lambda: [export_graph()],
        }

        def export_graph():
            from .iokit import install_io

            fs = install_io(P, g)
            order = [id(v) for v in sub._vertices]
            sub.to_g2o("x.g2o")
            P.check("graph_to_g2o:order_kept", [id(v) for v in sub._vertices] == order and sub._edges == [edges2[0], edges2[2]])
            return len(fs.files["x.g2o"].split("\n"))

        sub = None
        if qname == "graph_to_g2o":
            # the exported graph: odometry + custom edge, vertices listed in NON-ascending id order; built before the
            # snapshots are taken (constructing a Graph assigns gradient indices)
            sub = g.Graph([edges2[0], edges2[2]], [verts2[1], verts2[0]])
            graph2._vertices = sub._vertices
        query = queries[qname]
        before = snapshot(graph, verts, edges)
        before2 = snapshot(graph2, verts2, edges2)
        r1 = query()
        r2 = query()
        compare(P, "after", before, snapshot(graph, verts, edges))
        compare(P, "other_after", before2, snapshot(graph2, verts2, edges2))
        if qname == "graph_to_g2o":
            P.check("repeat:count", r1 == r2)
        elif qname.endswith("to_g2o"):
            P.check("repeat:count", len(r1) == len(r2))
        else:
            same_result(P, "repeat", r1, r2)
        if qname in ("graph_equals",):
            P.check("equal_graphs_are_equal", r1 is True or r1 == True)  # noqa

    return fn


def _pose_ops(kind):
    def fn(P, g):
        import numpy

        np = P.np
        a = mk_pose(P, g, kind, "a", wrapped=True)
        b = mk_pose(P, g, kind, "b", wrapped=True)
        q = mk_pose(P, g, POINT_OF[kind], "q")
        d = P.vector("d", COMPACT[kind])
        a0, b0, q0, d0 = a.to_array(), b.to_array(), q.to_array(), numpy.array(d, copy=True)
        ops = [
            ("add", lambda: a + b), ("sub", lambda: a - b), ("inverse", lambda: a.inverse), ("copy", lambda: a.copy()),
            ("to_array", lambda: a.to_array()), ("to_compact", lambda: a.to_compact()), ("point", lambda: a + q), ("boxplus", lambda: a + d),
            ("position", lambda: a.position), ("orientation", lambda: a.orientation), ("equals", lambda: a.equals(b)),
        ]
        if hasattr(a, "to_matrix"):
            ops.append(("to_matrix", lambda: a.to_matrix()))
        for name in ["jacobian_self_oplus_other_wrt_self", "jacobian_self_oplus_other_wrt_other", "jacobian_self_ominus_other_wrt_self", "jacobian_self_ominus_other_wrt_other"]:
            ops.append((name, lambda name=name: getattr(a, name)(b)))
            ops.append((name + "_compact", lambda name=name: getattr(a, name + "_compact")(b)))
        ops += [("jacobian_boxplus", lambda: a.jacobian_boxplus()), ("jacobian_inverse", lambda: a.jacobian_inverse()), ("jacobian_point_self", lambda: a.jacobian_self_oplus_point_wrt_self(q)), ("jacobian_point_point", lambda: a.jacobian_self_oplus_point_wrt_point(q))]
        for name, op in ops:
            r1 = op()
            r2 = op()
            P.check_eq("%s:a" % name, a.to_array(), a0)
            P.check_eq("%s:b" % name, b.to_array(), b0)
            P.check_eq("%s:q" % name, q.to_array(), q0)
            P.check_eq("%s:d" % name, d, d0)
            same_result(P, "%s:repeat" % name, r1, r2)
            if isinstance(r1, numpy.ndarray) and name not in ("orientation",):
                P.check("%s:fresh" % name, not numpy.shares_memory(r1, a) and not numpy.shares_memory(r1, b) and not numpy.shares_memory(r1, r2))
        # in-place add rebinds, does not mutate the original object
        c = a
        c += b
        P.check("iadd_rebinds", c is not a)
        P.check_eq("iadd_leaves_operand", a.to_array(), a0)
        # copies are independent
        cp = a.copy()
        P.check("copy_no_shared_memory", not numpy.shares_memory(cp, a))
        cp[0] = 12345.678
        P.check_eq("copy_independent", a.to_array(), a0)
        # a pose constructed from an existing pose's data is a new value
        again = type(a)(*((a.to_array(),) if kind in ("R2", "R3") else ((a[:2], a[2]) if kind == "SE2" else (a[:3], a[3:]))))
        P.check_eq("reconstruct_equal", again.to_array(), a0)

    return fn


def _optimize_real(fam, aliased=False):
    def fn(P, g):
        env = install_stubs(P, g)
        graph, verts, edges = build(P, g, fam, aliased=aliased)
        before = snapshot(graph, verts, edges)
        import warnings

        with warnings.catch_warnings():
            warnings.simplefilter("ignore")
            graph.optimize(tol=0.0, max_iter=1, fix_first_pose=True, verbose=False)
        after = snapshot(graph, verts, edges)
        k = verts.index(graph._vertices[0])  # the FIRST LISTED vertex (the list is deliberately not in id order)
        compare(P, "optimize", before, after, skip=(".pose", "v%d.fixed" % k))
        P.check("first_listed_fixed", verts[k].fixed is True)
        P.check_eq("fixed_pose", after["v%d.pose" % k], before["v%d.pose" % k])

    return fn


def _optimize_free(max_iter, fixed=(2,), info="sym"):
    def fn(P, g):
        import numpy

        env = install_stubs(P, g)
        kinds, es = ["SE2", "R2", "SE2"], [(0, 1), (2, 1), (2, 0, 1)]
        graph, verts, eobjs, ids = structure_graph(P, g, kinds, es, set(fixed), symbolic_ids=False, epoch_chi2=True, info=info)
        infos = [e.information for e in eobjs]
        keep = [(numpy.array(e.information, copy=True), numpy.array(e._err, copy=True), [numpy.array(j, copy=True) for j in e._jacs], list(e.vertex_ids)) for e in eobjs]
        flags = [v.fixed for v in verts]
        import warnings

        with warnings.catch_warnings():
            warnings.simplefilter("ignore")
            graph.optimize(tol=P.real("tol", lo=0.0, hi=1.0), max_iter=max_iter, fix_first_pose=False, verbose=False)
        for k, (e, (om, err, jacs, vids)) in enumerate(zip(eobjs, keep)):
            P.check_eq("info_%d" % k, e.information, om)
            P.check("info_same_object_%d" % k, e.information is infos[k])
            P.check_eq("err_%d" % k, e._err, err)
            for a, j in enumerate(jacs):
                P.check_eq("jac_%d_%d" % (k, a), e._jacs[a], j)
            P.check("ids_%d" % k, list(e.vertex_ids) == vids)
        P.check("flags", [v.fixed for v in verts] == flags)
        P.check("orders", graph._vertices == verts and graph._edges == eobjs)

    return fn


def _loaded_export(P, g):
    """a graph LOADED from a file (so that it owns parameters, here with a non-unit offset quaternion, shared with its
    landmark edges) is exported: nothing reachable from it may change, and chi^2 is the same before and after"""
    from .c13 import same_as_snapshot, value_snapshot
    from .c14 import SE3_FILE, make_specs
    from .iokit import capture_logs, install_io

    fs = install_io(P, g)
    capture_logs(g)
    ids = {k: P.int("id_" + k) for k in ("a2", "b2", "a3", "b3", "l2", "l3", "p2")}
    P.distinct(list(ids.values()))
    pid = P.int("pid")
    S = make_specs(P, g, ids, pid)
    sp = S["PARAMS_SE3OFFSET"]
    sp.numbers = sp.numbers[:4] + P.reals("rawq", 4)
    fs.files["in.g2o"] = "".join(S[nm].text(" ", "\n") for nm in SE3_FILE)
    G = g.Graph.from_g2o("in.g2o")
    snap = value_snapshot(G)
    chi_before = [e.calc_chi2() for e in G._edges]
    G.to_g2o("out1.g2o")
    same_as_snapshot(P, "after_export", G, snap)
    G.to_g2o("out2.g2o")
    same_as_snapshot(P, "after_second_export", G, snap)
    P.check_eq("chi2_unchanged_by_export", [e.calc_chi2() for e in G._edges], chi_before, tol=1e-12)
    P.check("same_text_twice", len(fs.files["out1.g2o"].split("\n")) == len(fs.files["out2.g2o"].split("\n")))


def _fp_restore(kind):
    """IEEE binary64: the numerical-differentiation fallback leaves every pose component bit-identical"""

    def fn(P, g):
        import numpy

        np = P.np
        with P.fp_mode(g):

            def pose(name):
                if kind == "R2":
                    return g.PoseR2([P.fp(name + "0", -100, 100), P.fp(name + "1", -100, 100)])
                if kind == "R3":
                    return g.PoseR3([P.fp(name + "%d" % i, -100, 100) for i in range(3)])
                if kind == "SE2":
                    return g.PoseSE2([P.fp(name + "0", -100, 100), P.fp(name + "1", -100, 100)], P.fp(name + "th", -3.0, 3.0))
                return g.PoseSE3([P.fp(name + "%d" % i, -100, 100) for i in range(3)], [P.fp(name + "q%d" % i, -1, 1) for i in range(4)])

            class ConstEdge(g.BaseEdge):
                def calc_error(self):
                    return numpy.zeros(2)

                def is_valid(self):
                    return True

            verts = [g.Vertex(0, pose("a")), g.Vertex(1, pose("b"))]
            e = ConstEdge([0, 1], numpy.eye(2), None, vertices=verts)
            before = [numpy.array(v.pose, copy=True) for v in verts]
            J = g.BaseEdge.calc_jacobians(e)
            P.check("two_jacobians", len(J) == 2)
            for k, v in enumerate(verts):
                P.check_bits("restored_bits_%d" % k, numpy.array(v.pose), before[k])
            J2 = g.BaseEdge.calc_jacobians(e)
            for k, v in enumerate(verts):
                P.check_bits("restored_bits_again_%d" % k, numpy.array(v.pose), before[k])

    return fn


def _fp_repeat(P, g):
    """IEEE binary64: numerical Jacobians and the gradient/Hessian contributions of a custom edge are bit-identical when
    asked for again with nothing changed in between (coordinates up to 1e11, where a 1e-6 perturbation is partly or
    wholly lost to rounding)"""
    import numpy

    with P.fp_mode(g):
        a = g.PoseR2([P.fp("a0", -100, 100), P.fp("a1", -1e11, 1e11)])
        c = [P.fp("c0", -100, 100), P.fp("c1", -1e11, 1e11)]

        class PriorEdge(g.BaseEdge):
            def calc_error(self):
                p = self.vertices[0].pose
                return numpy.array([p[0] - c[0], p[1] - c[1]], dtype=object)

            def is_valid(self):
                return True

        v = g.Vertex(0, a)
        e = PriorEdge([0], numpy.eye(2), None, vertices=[v])
        e1 = e.calc_error()
        J1 = e.calc_jacobians()
        J2 = e.calc_jacobians()
        J3 = e.calc_jacobians()
        e2 = e.calc_error()
        P.check_bits("error_repeat", e2, e1)
        P.check_bits("jacobian_repeat", J2[0], J1[0])
        P.check_bits("jacobian_repeat_again", J3[0], J1[0])


def cases(tier):
    out = []
    v = 1 if tier == "quick" else 3
    out.append(Case("loaded-graph-export", _loaded_export, timeout=20, old_timeout=30, validate=1, feas_timeout_ms=1500, val_tol=1e-6, shards=2))
    for kind in POSE_KINDS:
        out.append(Case("fp-restore-%s" % kind, _fp_restore(kind), timeout=120, old_timeout=120, validate=3, shadow=False))
    fams = POSE_KINDS
    for fam in fams:
        for which, ename in enumerate(["odom", "lmk", "custom"]):
            for qname, _ in edge_queries(None, True):
                if ename == "custom" and qname == "numerical_jacobians":
                    continue  # calc_jacobians of the custom edge IS the numerical one
                heavy = fam == "SE3"
                out.append(Case("edge-%s-%s-%s" % (fam, ename, qname), _edge_case(fam, which, qname), timeout=10, old_timeout=20, validate=v if not heavy else 1, feas_timeout_ms=1000, val_tol=1e-3))
        for qname in ["graph_chi2", "graph_gradient_hessian", "graph_equals", "edge_equals", "vertex_equals", "vertex_to_g2o", "edge_to_g2o"] + (["graph_to_g2o"] if fam in ("SE2", "SE3") else []):
            out.append(Case("graph-%s-%s" % (fam, qname), _graph_case(fam, qname), timeout=10, old_timeout=20, validate=1, feas_timeout_ms=1000, val_tol=1e-3))
        out.append(Case("poseops-%s" % fam, _pose_ops(fam), timeout=10, old_timeout=20, validate=v, feas_timeout_ms=1000, val_tol=1e-3))
        out.append(Case("optimize-real-%s" % fam, _optimize_real(fam), timeout=10, old_timeout=20, validate=1, feas_timeout_ms=1000, val_tol=1e-3))
        out.append(Case("optimize-real-aliased-%s" % fam, _optimize_real(fam, aliased=True), timeout=10, old_timeout=20, validate=1, feas_timeout_ms=1000, val_tol=1e-3))
    for mi in (1, 2, 3):
        out.append(Case("optimize-free-it%d" % mi, _optimize_free(mi), timeout=10, validate=1, feas_timeout_ms=1500, val_tol=1e-3))
    out.append(Case("optimize-free-nofixed-it1", _optimize_free(1, fixed=()), timeout=10, validate=1, feas_timeout_ms=1500, val_tol=1e-3))
    out.append(Case("optimize-free-asymmetric-information-it2", _optimize_free(2, info="full"), timeout=10, validate=1, feas_timeout_ms=1500, val_tol=1e-3))
    out.append(Case("fp-repeat-R2", _fp_repeat, timeout=120, old_timeout=120, validate=3, shadow=False))
    return out
