"""C04 - linear (R^2/R^3) graphs are solved to the global weighted-least-squares optimum."""
from .common import COMPACT, Case, mk_pose
from .graphkit import contract_solver, install_stubs

PROPERTY = "C04"
EXPLANATION = (
    "Graphs of the REAL EdgeOdometry/EdgeLandmark classes over PoseR2/PoseR3 (errors and Jacobians not abstracted) are "
    "optimized by the real Graph.optimize with the linear solver replaced by its contract (H dx = rhs). Initial guesses of all "
    "vertices, measurements, offsets and symmetric information matrices are solver variables. z3 proves first-order optimality "
    "against an independent model: the gradient of a hand-written chi^2 (sum of (z-(p2-p1))^T Omega (...) and "
    "((l-p1-off)-z)^T Omega (...)), evaluated at the poses returned by optimize(), vanishes in every free coordinate, fixed "
    "vertices did not move, and the reported final_chi2 equals the hand-written chi^2 at the returned poses. For positive "
    "definite information and a connected graph with a fixed vertex chi^2 is strictly convex in the free coordinates, so a "
    "stationary point is the unique global minimiser (mathematics, not code)."
)
BOUNDS = {"quick": "10 topologies over 2..3 vertices (tree, loop, multi-edge, landmark edges with offsets, several fixed), R^2 and R^3, one iteration from an arbitrary start", "thorough": "20 fixed topologies over 2..4 vertices, all non-empty fixed subsets of the 3-vertex loop, plus 24 seeded connected multigraphs with 4..6 vertices and up to 8 edges"}
OUTSIDE = "5..30 vertices (identical per-edge algebra, but the solver verdict covers the bound only); rounding; SuperLU"
BOUNDS = {k: v + "; shared-start (all vertices views of one array), restart (same Graph optimized again from a new guess) and far-start (2 iterations; float64 validation runs start about 1e7 away) variants of three topologies" for k, v in BOUNDS.items()}
ASSUMPTIONS = ["solver contract: returns dx with H dx = rhs (nonsingular case)", "information symmetric", "connected + >=1 fixed + SPD information => unique minimiser (convexity argument)"]


def _build(P, g, dim, nv, edges, fixed, shared=False, far=()):
    kind = "R%d" % dim
    if shared:
        # every vertex starts at the same point and all poses are built from ONE array (PoseRn(arr) is a view of arr)
        import numpy

        start = P.vector("start", dim)
        keep = numpy.array(start, copy=True)
        cls = g.PoseR2 if dim == 2 else g.PoseR3
        verts = [g.Vertex(i, cls(start), fixed=(i in fixed)) for i in range(nv)]
        verts[0]._shared_start = (start, keep)
    else:
        cls = g.PoseR2 if dim == 2 else g.PoseR3
        # "far": the float64 validation runs start these vertices about 1e7 away (the solver side is the same proof: the start
        # is an arbitrary real either way)
        verts = [g.Vertex(i, cls(P.reals("x%d" % i, dim, scale=1e7)) if i in far else mk_pose(P, g, kind, "x%d" % i), fixed=(i in fixed)) for i in range(nv)]
    eobjs, model = [], []
    for k, (typ, a, b) in enumerate(edges):
        om = P.sym_matrix("om%d" % k, dim, psd=True)
        z = mk_pose(P, g, kind, "z%d" % k)
        if typ == "o":
            eobjs.append(g.EdgeOdometry([a, b], om, z))
            model.append((typ, a, b, om, z.to_array(), None))
        else:
            off = mk_pose(P, g, kind, "off%d" % k)
            eobjs.append(g.EdgeLandmark([a, b], om, z, off, offset_id=k))
            model.append((typ, a, b, om, z.to_array(), off.to_array()))
    return g.Graph(eobjs, verts), verts, model


def _ref(P, dim, model, X):
    """hand-written chi^2 and its gradient w.r.t. every vertex at positions X (list of coordinate lists)"""
    chi = 0.0
    grad = [[0.0] * dim for _ in X]
    for typ, a, b, om, z, off in model:
        if typ == "o":
            e = [z[i] - (X[b][i] - X[a][i]) for i in range(dim)]
            sa, sb = 1.0, -1.0
        else:
            e = [(X[b][i] - X[a][i] - off[i]) - z[i] for i in range(dim)]
            sa, sb = -1.0, 1.0
        oe = [sum(om[i][j] * e[j] for j in range(dim)) for i in range(dim)]
        chi = chi + sum(e[i] * oe[i] for i in range(dim))
        for i in range(dim):
            grad[a][i] = grad[a][i] + 2.0 * sa * oe[i]
            grad[b][i] = grad[b][i] + 2.0 * sb * oe[i]
    return chi, grad


def _case(dim, nv, edges, fixed, ff, shared=False, restart=False, far=False):
    def fn(P, g):
        np = P.np
        env = install_stubs(P, g, solver=contract_solver(P) if P.symbolic else None)
        eff = set(fixed) | ({0} if ff else set())
        graph, verts, model = _build(P, g, dim, nv, edges, fixed, shared, far=[i for i in range(nv) if i not in eff] if far else ())
        import warnings

        if restart:
            # the SAME Graph object has been optimized before; the user then supplies a new initial guess for the free
            # vertices (rebinding one, overwriting the others in place) and optimizes again: still one step to the optimum
            with warnings.catch_warnings():
                warnings.simplefilter("ignore")
                graph.optimize(tol=1e-9, max_iter=2, fix_first_pose=ff, verbose=False)
            if restart == "reflag":
                # the user also changes WHICH vertices are held: the first fixed one is released, the first free one is held
                rel = min(eff)
                hold = min(i for i in range(nv) if i not in eff)
                verts[rel].fixed, verts[hold].fixed = False, True
                eff = (eff - {rel}) | {hold}
            for i, v in enumerate(verts):
                if i in eff:
                    continue
                guess = mk_pose(P, g, "R%d" % dim, "restart%d" % i)
                if i % 2:
                    v.pose = guess
                else:
                    v.pose[:] = guess.to_array()
        init = [v.pose.to_array() for v in verts]

        with warnings.catch_warnings():
            warnings.simplefilter("ignore")
            res = graph.optimize(tol=1e-9, max_iter=2 if far else 1, fix_first_pose=ff, verbose=False)
        X = [[v.pose[i] for i in range(dim)] for v in verts]
        chi, grad = _ref(P, dim, model, X)
        for i in range(nv):
            if i in eff:
                P.check_eq("fixed_unchanged_%d" % i, verts[i].pose.to_array(), init[i])
            elif P.symbolic or not far:
                # (float64 runs from 1e7 away: the gradient is zero up to rounding of that size only; the reports below are
                # still compared there)
                P.check_eq("stationary_%d" % i, grad[i], [0.0] * dim)
        if shared:
            start, keep = verts[0]._shared_start
            P.check_eq("callers_array_untouched", start, keep)
        P.check_eq("final_chi2_is_reference", res.final_chi2, chi)
        chi0, _ = _ref(P, dim, model, [[p[i] for i in range(dim)] for p in init])
        P.check_eq("initial_chi2_is_reference", res.initial_chi2, chi0)

    return fn


TOPO_QUICK = [
    # dim, nv, edges (type, from, to), fixed, fix_first_pose
    (2, 2, [("o", 0, 1)], set(), True),
    (2, 3, [("o", 0, 1), ("o", 1, 2)], set(), True),
    (2, 3, [("o", 0, 1), ("o", 1, 2), ("o", 2, 0)], set(), True),
    (2, 2, [("o", 0, 1), ("o", 1, 0)], {1}, False),
    (2, 3, [("o", 0, 1), ("l", 0, 2), ("l", 1, 2)], set(), True),
    (3, 2, [("l", 0, 1), ("o", 0, 1)], set(), True),
    (3, 3, [("o", 0, 1), ("o", 2, 1)], {0, 2}, False),
    (2, 3, [("o", 0, 1), ("o", 1, 2), ("o", 2, 1)], set(), True),  # anti-parallel edges between two free vertices
    (2, 3, [("o", 0, 1), ("o", 1, 2), ("o", 0, 2)], {0, 2}, False),  # an edge joining two fixed vertices
    (3, 3, [("o", 1, 2), ("l", 2, 1), ("o", 0, 1)], set(), True),
]
TOPO_MORE = [
    (3, 3, [("o", 0, 1), ("o", 1, 2), ("o", 0, 2)], set(), True),
    (2, 4, [("o", 0, 1), ("o", 1, 2), ("o", 2, 3), ("o", 3, 0)], set(), True),
    (2, 4, [("o", 0, 1), ("o", 1, 2), ("l", 0, 3), ("l", 1, 3), ("l", 2, 3)], set(), True),
    (3, 4, [("o", 0, 1), ("o", 1, 2), ("o", 2, 3), ("l", 0, 3)], {3}, False),
    (2, 3, [("o", 0, 1), ("o", 0, 1), ("o", 1, 2)], set(), True),
]


def _name(t):
    dim, nv, edges, fixed, ff = t
    return "R%d_v%d_%s_fix%s_ff%d" % (dim, nv, "+".join("%s%d%d" % e for e in edges), "".join(map(str, sorted(fixed))) or "none", int(ff))


def cases(tier):
    topo = list(TOPO_QUICK)
    if tier == "thorough":
        topo += TOPO_MORE
        import itertools

        for r in (1, 2, 3):
            for fixed in itertools.combinations(range(3), r):
                t = (2, 3, [("o", 0, 1), ("o", 1, 2), ("o", 2, 0)], set(fixed), False)
                if _name(t) not in {_name(x) for x in topo}:
                    topo.append(t)
    if tier == "thorough":
        import random

        rnd = random.Random(4242)
        seen = {_name(x) for x in topo}
        for _ in range(24):
            dim = rnd.choice([2, 3])
            nv = rnd.choice([4, 5, 6])
            edges = [(rnd.choice("ol"), i, i + 1) if rnd.random() < 0.7 else (rnd.choice("ol"), i + 1, i) for i in range(nv - 1)]  # a spanning chain
            for _e in range(rnd.choice([1, 2, 3])):
                a, b = rnd.sample(range(nv), 2)
                edges.append((rnd.choice("ol"), a, b))
            fixed = set(rnd.sample(range(nv), rnd.choice([1, 1, 2])))
            t = (dim, nv, edges, fixed, False)
            if _name(t) not in seen:
                seen.add(_name(t))
                topo.append(t)
    shared_cases = [Case("shared-start-" + _name(t), _case(*t, shared=True), timeout=60, old_timeout=60, validate=2, feas_timeout_ms=2000) for t in (TOPO_QUICK[1], TOPO_QUICK[2], TOPO_QUICK[6])]
    shared_cases += [Case("far-start-" + _name(t), _case(*t, far=True), timeout=60, old_timeout=60, validate=3, shadow=False, feas_timeout_ms=2000) for t in (TOPO_QUICK[1], TOPO_QUICK[4], TOPO_QUICK[5])]
    shared_cases += [Case("restart-reflag-" + _name(t), _case(*t, restart="reflag"), timeout=60, old_timeout=60, validate=2, feas_timeout_ms=2000) for t in (TOPO_QUICK[8], TOPO_QUICK[3])]
    shared_cases += [Case("restart-" + _name(t), _case(*t, restart=True), timeout=60, old_timeout=60, validate=2, feas_timeout_ms=2000) for t in (TOPO_QUICK[2], TOPO_QUICK[7], TOPO_QUICK[9])]
    return shared_cases + [Case(_name(t), _case(*t), timeout=60 if tier == "quick" else 300, old_timeout=60 if tier == "quick" else 300, validate=2, feas_timeout_ms=2000, shards=2 if t[1] >= 3 else 1) for t in topo]
