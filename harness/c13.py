"""C13 - .g2o export followed by import is lossless."""
from .common import Case, mk_pose
from .c14 import SE2_FILE, SE3_FILE, make_specs
from .iokit import capture_logs, custom_edge_class, install_io

PROPERTY = "C13"
EXPLANATION = (
    "The real Graph.to_g2o, Vertex.to_g2o, EdgeOdometry.to_g2o, EdgeLandmark.to_g2o, both parameter to_g2o methods and the "
    "complete import path are executed on graphs whose every number is a solver variable. Numbers travel through the "
    "in-memory file as placeholder tokens created by format()/str() of the scalars and resolved by the stubbed float/int "
    "(contract: float(format(x,'')) == x; a non-empty format spec yields an unrelated fresh value, so any loss of precision, "
    "a dropped or reordered field, a wrong triangular index or a missing offset makes some field a different term). z3 proves, "
    "for two consecutive export/import cycles starting from an arbitrary loaded graph (cycle 2 starts from the symbolic state "
    "after cycle 1: the inductive step for any number of cycles), that ids, pose types, element order, poses, measurements, "
    "information matrices, offsets (through the parameter id) and parameters are identical (chi^2 is a deterministic function of "
    "these fields - C15 - and is additionally compared on the float64 validation runs); programmatically built "
    "graphs round-trip as well; content the format cannot express (R^n odometry, R^n->R^n landmark edges, SE(2) landmark "
    "edges with a non-identity offset) raises at export time."
)
BOUNDS = "(values compared with copies taken BEFORE the export; parameter offsets need not be unit; other files loaded in between) SE(2) family and SE(3) family graphs (2 poses, 1 landmark, odometry + landmark edge, parameters, custom edge with to_g2o), programmatic graphs, 2 cycles; a loaded graph edited in place (poses, measurements, information, landmark offset) before the export"
OUTSIDE = "the builtin float formatting/parsing itself (trusted: shortest-repr round trip), values beyond double range, rounding inside angle wrap / quaternion renormalisation"
ASSUMPTIONS = ["float(format(x,'')) == x and int(format(i,'')) == i", "unit quaternions, SE(2) angles in [-pi,pi) in the loaded graph", "ids distinct"]


def same_graph(P, g, tag, A, B, strict_quat=True):
    np = P.np
    P.check("%s:vertex_count" % tag, len(A._vertices) == len(B._vertices))
    P.check("%s:edge_count" % tag, len(A._edges) == len(B._edges))
    for i, (a, b) in enumerate(zip(A._vertices, B._vertices)):
        P.check("%s:v%d:id" % (tag, i), a.id == b.id)
        P.check("%s:v%d:type" % (tag, i), type(a.pose) is type(b.pose))
        P.check_eq("%s:v%d:pose" % (tag, i), a.pose.to_array(), b.pose.to_array(), tol=1e-13)
    for i, (a, b) in enumerate(zip(A._edges, B._edges)):
        P.check("%s:e%d:type" % (tag, i), type(a) is type(b))
        P.check("%s:e%d:ids" % (tag, i), len(a.vertex_ids) == len(b.vertex_ids) and all(x == y for x, y in zip(a.vertex_ids, b.vertex_ids)))
        ea = a.estimate.to_array() if hasattr(a.estimate, "to_array") else a.estimate
        eb = b.estimate.to_array() if hasattr(b.estimate, "to_array") else b.estimate
        P.check("%s:e%d:estimate_type" % (tag, i), type(a.estimate) is type(b.estimate) or not hasattr(a.estimate, "to_array"))
        P.check_eq("%s:e%d:estimate" % (tag, i), ea, eb, tol=1e-13)
        P.check_eq("%s:e%d:information" % (tag, i), a.information, b.information, exact=True)
        if hasattr(b, "offset"):
            P.check("%s:e%d:offset_type" % (tag, i), hasattr(a, "offset") and type(a.offset) is type(b.offset))
            P.check_eq("%s:e%d:offset" % (tag, i), a.offset.to_array(), b.offset.to_array(), tol=1e-13)
            P.check("%s:e%d:offset_id" % (tag, i), a.offset_id == b.offset_id)
    pa, pb = A._g2o_params or {}, B._g2o_params or {}
    P.check("%s:param_count" % tag, len(pa) == len(pb))
    for key, prm in pb.items():
        P.check("%s:param_present" % tag, key in pa)
        if key in pa:
            P.check("%s:param_type" % tag, type(pa[key]) is type(prm) and type(pa[key].value) is type(prm.value))
            P.check_eq("%s:param_value" % tag, pa[key].value.to_array(), prm.value.to_array(), tol=1e-13)
    if not P.symbolic:
        # chi^2 is a deterministic function of the fields proved identical above (C15: queries are pure and repeatable);
        # it is compared directly on the float64 runs only
        P.check_eq("%s:chi2" % tag, A.calc_chi2(), B.calc_chi2(), tol=1e-10)


def value_snapshot(G):
    """copies of every numeric field reachable from the graph (taken BEFORE an export)"""
    import numpy

    snap = {"v": [(v.id, type(v.pose), numpy.array(v.pose.to_array(), copy=True)) for v in G._vertices], "e": [], "p": {}}
    for e in G._edges:
        est = numpy.array(e.estimate.to_array(), copy=True) if hasattr(e.estimate, "to_array") else e.estimate
        off = numpy.array(e.offset.to_array(), copy=True) if hasattr(e, "offset") else None
        snap["e"].append((type(e), list(e.vertex_ids), est, numpy.array(e.information, copy=True), off, getattr(e, "offset_id", None)))
    for key, prm in (G._g2o_params or {}).items():
        snap["p"][key] = numpy.array(prm.value.to_array(), copy=True)
    return snap


def same_as_snapshot(P, tag, G, snap, tol=1e-13):
    P.check("%s:counts" % tag, len(G._vertices) == len(snap["v"]) and len(G._edges) == len(snap["e"]) and len(G._g2o_params or {}) == len(snap["p"]))
    for i, (v, (vid, t, arr)) in enumerate(zip(G._vertices, snap["v"])):
        P.check("%s:v%d:id_type" % (tag, i), v.id == vid and type(v.pose) is t)
        P.check_eq("%s:v%d:pose" % (tag, i), v.pose.to_array(), arr, tol=tol)
    for i, (e, (t, ids_, est, info, off, oid)) in enumerate(zip(G._edges, snap["e"])):
        P.check("%s:e%d:type_ids" % (tag, i), type(e) is t and len(e.vertex_ids) == len(ids_) and all(a == b for a, b in zip(e.vertex_ids, ids_)))
        P.check_eq("%s:e%d:estimate" % (tag, i), e.estimate.to_array() if hasattr(e.estimate, "to_array") else e.estimate, est, tol=tol)
        P.check_eq("%s:e%d:information" % (tag, i), e.information, info, tol=tol)
        if off is not None:
            P.check_eq("%s:e%d:offset" % (tag, i), e.offset.to_array(), off, tol=tol)
            P.check("%s:e%d:offset_id" % (tag, i), e.offset_id == oid)
    for key, arr in snap["p"].items():
        P.check("%s:param_present" % tag, key in (G._g2o_params or {}))
        if key in (G._g2o_params or {}):
            P.check_eq("%s:param_value" % tag, G._g2o_params[key].value.to_array(), arr, tol=tol)


def _roundtrip(names, with_custom, raw_param=False):
    def fn(P, g):
        fs = install_io(P, g)
        capture_logs(g)
        ids = {k: P.int("id_" + k) for k in ("a2", "b2", "a3", "b3", "l2", "l3", "p2")}
        P.distinct(list(ids.values()))
        pid = P.int("pid")
        S = make_specs(P, g, ids, pid)
        if raw_param and "PARAMS_SE3OFFSET" in names:
            # parameter lines are loaded verbatim: the offset quaternion need not be unit
            sp = S["PARAMS_SE3OFFSET"]
            rawq = P.reals("rawq", 4)
            sp.numbers = sp.numbers[:4] + rawq
            sp.expect = sp.expect[:3] + (sp.expect[3][:3] + rawq,)
        lines = list(names) + (["EDGE_DIST"] if with_custom else [])
        fs.files["f0.g2o"] = "".join(S[nm].text(" ", "\n") for nm in lines)
        custom = [custom_edge_class(g, P)] if with_custom else None
        load = (lambda f: g.Graph.from_g2o(f, custom_edge_types=custom)) if custom else (lambda f: g.Graph.from_g2o(f))
        G0 = load("f0.g2o")
        order_v = [(v.id, type(v.pose)) for v in G0._vertices]
        order_e = [(type(e), list(e.vertex_ids)) for e in G0._edges]
        snap0 = value_snapshot(G0)
        G0.to_g2o("f1.g2o")
        same_as_snapshot(P, "exported_graph_unchanged", G0, snap0)
        # exporting does not reorder (or otherwise change) the graph being exported ...
        P.check("export_keeps_vertex_order", len(G0._vertices) == len(order_v) and all(v.id == i and type(v.pose) is t for v, (i, t) in zip(G0._vertices, order_v)))
        P.check("export_keeps_edge_order", len(G0._edges) == len(order_e) and all(type(e) is t and list(e.vertex_ids) == ids_ for e, (t, ids_) in zip(G0._edges, order_e)))
        G1 = load("f1.g2o")
        # ... and the re-imported graph has the element order the graph had BEFORE the export
        P.check("reimport_vertex_order", len(G1._vertices) == len(order_v) and all(v.id == i and type(v.pose) is t for v, (i, t) in zip(G1._vertices, order_v)))
        P.check("reimport_edge_order", len(G1._edges) == len(order_e) and all(type(e) is t and all(a == b for a, b in zip(e.vertex_ids, ids_)) for e, (t, ids_) in zip(G1._edges, order_e)))
        same_graph(P, g, "cycle1", G1, G0)
        same_as_snapshot(P, "cycle1_vs_before_export", G1, snap0)
        G1.to_g2o("f2.g2o")
        G2 = load("f2.g2o")
        same_graph(P, g, "cycle2", G2, G1)
        # the writer emits parameters, vertices, edges: every object exactly once
        n_lines = len([l for l in fs.files["f1.g2o"].split("\n") if l.strip()])
        P.check("line_count", n_lines == len(lines))

    return fn


def _extreme(names):
    """the ordinary two-cycle round trip; its float64 validation runs draw the numbers from doubles of extreme magnitude
    (close to overflow, subnormal, 2**53 + 2)"""
    from .c14 import EXTREMES

    inner = _roundtrip(names, False)

    def fn(P, g):
        P.draw_from(EXTREMES)
        return inner(P, g)

    return fn


def _interleaved_loads(P, g):
    """load A, load another file B that defines the same parameter id differently, then export A: A's own parameters
    (and offsets) must be written, and A must be unchanged by the second load"""
    fs = install_io(P, g)
    capture_logs(g)
    ids = {k: P.int("id_" + k) for k in ("a2", "b2", "a3", "b3", "l2", "l3", "p2")}
    P.distinct(list(ids.values()))
    pid = P.int("pid")
    S = make_specs(P, g, ids, pid)
    fs.files["A.g2o"] = "".join(S[nm].text(" ", "\n") for nm in SE3_FILE)
    other = P.reals("otherp", 3) + P.unit_quat("otherq")
    from .iokit import num

    fs.files["B.g2o"] = "PARAMS_SE3OFFSET " + " ".join(num(x) for x in [pid] + other) + "\n"
    fs.files["C.g2o"] = "# nothing here\n"
    A = g.Graph.from_g2o("A.g2o")
    snapA = value_snapshot(A)
    B = g.Graph.from_g2o("B.g2o")
    same_as_snapshot(P, "A_after_loading_B", A, snapA)
    C = g.Graph.from_g2o("C.g2o")
    same_as_snapshot(P, "A_after_loading_C", A, snapA)
    A.to_g2o("A2.g2o")
    A2 = g.Graph.from_g2o("A2.g2o")
    same_as_snapshot(P, "A_roundtrip_after_other_loads", A2, snapA)
    P.check("B_has_its_own_parameter", len(B._g2o_params) == 1 and len(C._g2o_params or {}) == 0)


def _edited_after_load(P, g):
    """a loaded graph is EDITED IN PLACE (vertex translations, measurements, information entries, the landmark edge's sensor
    offset) and then exported and re-imported: the file describes the graph as it is now"""
    fs = install_io(P, g)
    capture_logs(g)
    ids = {k: P.int("id_" + k) for k in ("a2", "b2", "a3", "b3", "l2", "l3", "p2")}
    P.distinct(list(ids.values()))
    pid = P.int("pid")
    S = make_specs(P, g, ids, pid)
    fs.files["f0.g2o"] = "".join(S[nm].text(" ", "\n") for nm in SE3_FILE)
    G0 = g.Graph.from_g2o("f0.g2o")
    k = 0
    for v in G0._vertices:
        v.pose[0] = P.real("edit%d" % k)
        k += 1
    for e in G0._edges:
        e.estimate[0] = P.real("edit%d" % k)
        k += 1
        w = P.real("edit%d" % k)
        k += 1
        e.information[0, 1] = w
        e.information[1, 0] = w
        if hasattr(e, "offset"):
            for i in range(3):
                e.offset[i] = P.real("edit%d" % k)
                k += 1
    G0.to_g2o("f1.g2o")
    G1 = g.Graph.from_g2o("f1.g2o")
    same_graph(P, g, "edited_cycle", G1, G0)


def _programmatic(fam):
    def fn(P, g):
        np = P.np
        fs = install_io(P, g)
        capture_logs(g)
        pt = {"SE2": "R2", "SE3": "R3"}[fam]
        n, m = {"SE2": 3, "SE3": 6}[fam], {"SE2": 2, "SE3": 3}[fam]
        ids = [P.int("id%d" % i) for i in range(3)]
        P.distinct(ids)
        v = [g.Vertex(ids[0], mk_pose(P, g, fam, "a", wrapped=True)), g.Vertex(ids[1], mk_pose(P, g, fam, "b", wrapped=True)), g.Vertex(ids[2], mk_pose(P, g, pt, "l"))]
        z = mk_pose(P, g, fam, "z", wrapped=True)
        if fam == "SE3":
            z.normalize()
        edges = [g.EdgeOdometry([ids[0], ids[1]], P.sym_matrix("omA", n, psd=True), z)]
        if fam == "SE2":
            edges.append(g.EdgeLandmark([ids[1], ids[2]], P.sym_matrix("omB", m, psd=True), mk_pose(P, g, pt, "zl"), g.PoseSE2.identity(), offset_id=0))
        G0 = g.Graph(edges, v)
        G0.to_g2o("p1.g2o")
        G1 = g.Graph.from_g2o("p1.g2o")
        same_graph(P, g, "programmatic", G1, G0)

    return fn


def _programmatic_se3_landmark(P, g):
    """SE(3) landmark edge in a graph that was not loaded from a file: the offset needs a PARAMS_SE3OFFSET line"""
    fs = install_io(P, g)
    capture_logs(g)
    ids = [P.int("id%d" % i) for i in range(2)]
    P.distinct(ids)
    v = [g.Vertex(ids[0], mk_pose(P, g, "SE3", "a")), g.Vertex(ids[1], mk_pose(P, g, "R3", "l"))]
    e = g.EdgeLandmark([ids[0], ids[1]], P.sym_matrix("om", 3, psd=True), mk_pose(P, g, "R3", "z"), mk_pose(P, g, "SE3", "off"), offset_id=7)
    G0 = g.Graph([e], v)
    try:
        G0.to_g2o("q1.g2o")
    except NotImplementedError:
        P.check("refused", True)
        return
    try:
        G1 = g.Graph.from_g2o("q1.g2o")
    except Exception as ex:  # noqa
        P.fail("roundtrip_unreadable", "written file cannot be read back: %s" % type(ex).__name__)
        return
    same_graph(P, g, "roundtrip_se3_landmark", G1, G0)


def _refusals(P, g):
    np = P.np
    fs = install_io(P, g)

    def raises(tag, thunk):
        try:
            r = thunk()
        except NotImplementedError:
            P.check(tag, True)
            return
        except Exception as ex:  # noqa
            P.fail(tag, "raised %s instead of NotImplementedError" % type(ex).__name__)
            return
        P.fail(tag, "silently produced %r" % (str(r)[:60],))

    for kind, n in (("R2", 2), ("R3", 3)):
        a, b = g.Vertex(0, mk_pose(P, g, kind, "a" + kind)), g.Vertex(1, mk_pose(P, g, kind, "b" + kind))
        e = g.EdgeOdometry([0, 1], np.eye(n), mk_pose(P, g, kind, "z" + kind), vertices=[a, b])
        raises("odometry_%s_refused" % kind, e.to_g2o)
        el = g.EdgeLandmark([0, 1], np.eye(n), mk_pose(P, g, kind, "zl" + kind), mk_pose(P, g, kind, "o" + kind), offset_id=0, vertices=[a, b])
        raises("landmark_%s_refused" % kind, el.to_g2o)
        gr = g.Graph([g.EdgeOdometry([0, 1], np.eye(n), mk_pose(P, g, kind, "zz" + kind))], [a, b])
        raises("graph_with_%s_odometry_refused" % kind, lambda gr=gr: gr.to_g2o("r.g2o"))
    # SE(2) landmark edge with an offset that EDGE_SE2_XY cannot carry
    a, l = g.Vertex(0, mk_pose(P, g, "SE2", "pa", wrapped=True)), g.Vertex(1, mk_pose(P, g, "R2", "pl"))
    for name, off in (("translated", g.PoseSE2([P.real("ox", lo=0.5, hi=2.0), 0.0], 0.0)), ("rotated", g.PoseSE2([0.0, 0.0], P.real("oth", lo=0.25, hi=1.0)))):
        e = g.EdgeLandmark([0, 1], np.eye(2), mk_pose(P, g, "R2", "zl" + name), off, offset_id=0, vertices=[a, l])
        raises("se2_landmark_offset_%s_refused" % name, e.to_g2o)
    e = g.EdgeLandmark([0, 1], np.eye(2), mk_pose(P, g, "R2", "zlid"), g.PoseSE2.identity(), offset_id=0, vertices=[a, l])
    try:
        P.check("se2_landmark_identity_offset_written", isinstance(e.to_g2o(), str))
    except Exception as ex:  # noqa
        P.fail("se2_landmark_identity_offset_written", "raised %s" % type(ex).__name__)

    class Odd:
        pass

    raises("vertex_unknown_pose_refused", g.Vertex(0, Odd()).to_g2o)


def cases(tier):
    v = 1 if tier == "quick" else 3
    out = [
        Case("roundtrip-se2", _roundtrip(SE2_FILE, False), timeout=20, old_timeout=30, validate=v, feas_timeout_ms=1500, val_tol=1e-9),
        Case("roundtrip-se3", _roundtrip(SE3_FILE, False), timeout=20, old_timeout=30, validate=v, feas_timeout_ms=1500, val_tol=1e-9, shards=4),
        Case("roundtrip-se3-isolated-vertices", _roundtrip(SE3_FILE + ["VERTEX_XY", "VERTEX_SE2:a2"], False), timeout=20, old_timeout=30, validate=v, feas_timeout_ms=1500, val_tol=1e-9, shards=4),
        Case("roundtrip-se3-custom", _roundtrip(SE3_FILE, True), timeout=20, old_timeout=30, validate=v, feas_timeout_ms=1500, val_tol=1e-9, shards=4),
        Case("roundtrip-se3-rawparam", _roundtrip(SE3_FILE, False, raw_param=True), timeout=20, old_timeout=30, validate=v, feas_timeout_ms=1500, val_tol=1e-9, shards=4),
        Case("extreme-magnitudes-se2", _extreme(SE2_FILE), timeout=20, old_timeout=30, validate=4, feas_timeout_ms=1500, val_tol=1e-9, shadow=False),
        Case("extreme-magnitudes-se3", _extreme(SE3_FILE), timeout=20, old_timeout=30, validate=4, feas_timeout_ms=1500, val_tol=1e-9, shadow=False, shards=4),
        Case("edited-after-load", _edited_after_load, timeout=20, old_timeout=30, validate=v, feas_timeout_ms=1500, val_tol=1e-9, shards=2),
        Case("interleaved-loads", _interleaved_loads, timeout=20, old_timeout=30, validate=v, feas_timeout_ms=1500, val_tol=1e-9, shards=2),
        Case("programmatic-se2", _programmatic("SE2"), timeout=20, old_timeout=30, validate=v, feas_timeout_ms=1500, val_tol=1e-9),
        Case("programmatic-se3", _programmatic("SE3"), timeout=20, old_timeout=30, validate=v, feas_timeout_ms=1500, val_tol=1e-9, shards=2),
        Case("programmatic-se3-landmark", _programmatic_se3_landmark, timeout=10, validate=v, feas_timeout_ms=1500),
        Case("refusals", _refusals, timeout=10, validate=v),
    ]
    return out
