"""C14 - .g2o import is faithful to the file."""
import itertools

from .common import Case
from .iokit import capture_logs, custom_edge_class, install_io, num

PROPERTY = "C14"
EXPLANATION = (
    "(a) Values: the real Graph.from_g2o, Vertex.from_g2o, EdgeOdometry.from_g2o, EdgeLandmark.from_g2o, both parameter "
    "parsers, upper_triangular_matrix_to_full_matrix and the five load.load_g2o* wrappers are executed on in-memory files "
    "whose every number is a placeholder token standing for a solver variable (reals, unit quaternions, integer ids). For each "
    "vocabulary line and a registered custom edge type z3 proves that exactly one object of the right class is produced, "
    "carrying exactly token k in field f of an independently written field map (row-major upper triangle expanded to the "
    "symmetric matrix, offsets resolved through the parameter id, SE(3) measurements normalised to w>=0), in file order; "
    "interleaved blank/comment/unknown lines, extra blanks/tabs and CRLF endings change nothing and produce exactly one "
    "warning per unrecognised non-blank line; all six entry points return termwise identical graphs. (b) Dispatch: CrossHair "
    "explores a symbolic str line (len<=20) and confirms that a line starting with none of the ten keywords makes every parser "
    "return None without raising."
)
BOUNDS = {"quick": "11 line kinds, line orders of <=4 objects, 3 separator styles, junk lines at every position; CrossHair: |line|<=20, 40 s per condition", "thorough": "plus all orders of the 6-line SE(3) file, all parameter/edge id (in)equalities"}
BOUNDS = {k: v + "; load history (custom edge types registered in an earlier load); float64 validation runs with numbers of extreme magnitude" for k, v in BOUNDS.items()}
OUTSIDE = "lexical forms accepted by the builtin float()/int() (delegated by contract: float(shortest-repr(x)) == x), inf/nan, lines longer than 20 characters for the dispatch clause"
ASSUMPTIONS = ["float/int stubs resolve a token to the number it was formatted from", "unit quaternions on SE(3) edge lines", "distinct ids for distinct vertices"]

SEPS = {"space": (" ", "\n"), "tabs": ("  \t ", "\n"), "crlf": (" ", "\r\n"), "noeol": (" ", "")}


class Spec:
    """one file line: keyword + numbers (tokens) and the expected object description"""

    def __init__(self, kw, numbers, kind, expect):
        self.kw, self.numbers, self.kind, self.expect = kw, numbers, kind, expect

    def text(self, sep, eol):
        return self.kw + " " + sep.join(num(x) for x in self.numbers) + eol


def _upper(P, name, n):
    vals = P.reals(name, n * (n + 1) // 2)
    full = [[None] * n for _ in range(n)]
    k = 0
    for i in range(n):
        for j in range(i, n):
            full[i][j] = vals[k]
            full[j][i] = vals[k]
            k += 1
    return vals, full


def make_specs(P, g, ids, pid):
    """all line kinds over shared ids: ids = dict name -> integer value (symbolic), pid = parameter id"""
    S = {}
    xy = P.reals("vxy", 2)
    S["VERTEX_XY"] = Spec("VERTEX_XY", [ids["l2"]] + xy, "vertex", (g.PoseR2, ids["l2"], xy))
    xyz = P.reals("vxyz", 3)
    S["VERTEX_TRACKXYZ"] = Spec("VERTEX_TRACKXYZ", [ids["l3"]] + xyz, "vertex", (g.PoseR3, ids["l3"], xyz))
    for nm in ("a2", "b2"):
        t = P.reals("v" + nm, 2)
        th = P.angle("v%s_th" % nm, wrapped=True)
        S["VERTEX_SE2:" + nm] = Spec("VERTEX_SE2", [ids[nm]] + t + [th], "vertex", (g.PoseSE2, ids[nm], t + [th]))
    for nm in ("a3", "b3"):
        t = P.reals("v" + nm, 3)
        q = P.unit_quat("v%s_q" % nm)
        S["VERTEX_SE3:QUAT:" + nm] = Spec("VERTEX_SE3:QUAT", [ids[nm]] + t + q, "vertex", (g.PoseSE3, ids[nm], t + q))
    t = P.reals("e2", 2)
    th = P.angle("e2_th", wrapped=True)
    up, full = _upper(P, "e2i", 3)
    S["EDGE_SE2"] = Spec("EDGE_SE2", [ids["a2"], ids["b2"]] + t + [th] + up, "odom", (g.PoseSE2, [ids["a2"], ids["b2"]], t + [th], full))
    t = P.reals("e3", 3)
    q = P.unit_quat("e3_q")
    up, full = _upper(P, "e3i", 6)
    S["EDGE_SE3:QUAT"] = Spec("EDGE_SE3:QUAT", [ids["a3"], ids["b3"]] + t + q, "odom", (g.PoseSE3, [ids["a3"], ids["b3"]], t + q, full))
    S["EDGE_SE3:QUAT"].numbers += up
    t = P.reals("l2", 2)
    up, full = _upper(P, "l2i", 2)
    S["EDGE_SE2_XY"] = Spec("EDGE_SE2_XY", [ids["a2"], ids["l2"]] + t + up, "lmk", (g.PoseR2, [ids["a2"], ids["l2"]], t, full, (g.PoseSE2, [0.0, 0.0, 0.0]), 0))
    t = P.reals("l3", 3)
    up, full = _upper(P, "l3i", 3)
    pt = P.reals("p3", 3)
    pq = P.unit_quat("p3_q")
    S["PARAMS_SE3OFFSET"] = Spec("PARAMS_SE3OFFSET", [pid] + pt + pq, "param", ("PARAMS_SE3OFFSET", pid, g.PoseSE3, pt + pq))
    S["EDGE_SE3_TRACKXYZ"] = Spec("EDGE_SE3_TRACKXYZ", [ids["a3"], ids["l3"], pid] + t + up, "lmk", (g.PoseR3, [ids["a3"], ids["l3"]], t, full, (g.PoseSE3, pt + pq), pid))
    p2 = P.reals("p2", 2)
    p2th = P.angle("p2_th", wrapped=True)
    S["PARAMS_SE2OFFSET"] = Spec("PARAMS_SE2OFFSET", [ids["p2"]] + p2 + [p2th], "param", ("PARAMS_SE2OFFSET", ids["p2"], g.PoseSE2, p2 + [p2th]))
    de, di = P.real("cd_est"), P.real("cd_info")
    S["EDGE_DIST"] = Spec("EDGE_DIST", [ids["a3"], ids["b3"], de, di], "custom", ([ids["a3"], ids["b3"]], de, di))
    return S


def check_vertex(P, tag, v, expect):
    cls, vid, vals = expect
    P.check("%s:class" % tag, type(v.pose) is cls)
    P.check("%s:id" % tag, v.id == vid)
    P.check("%s:not_fixed" % tag, v.fixed is False)
    P.check_eq("%s:pose" % tag, v.pose.to_array(), vals, exact=True)


def check_edge(P, g, tag, e, spec):
    np = P.np
    if spec.kind == "custom":
        vids, est, info = spec.expect
        P.check("%s:class" % tag, type(e).__name__ == "DistEdge")
        P.check("%s:ids" % tag, len(e.vertex_ids) == 2 and e.vertex_ids[0] == vids[0] and e.vertex_ids[1] == vids[1])
        P.check_eq("%s:estimate" % tag, e.estimate, est, exact=True)
        P.check_eq("%s:information" % tag, e.information, [[info]], exact=True)
        return
    cls, vids, vals, full = spec.expect[:4]
    P.check("%s:class" % tag, type(e) is (g.EdgeOdometry if spec.kind == "odom" else g.EdgeLandmark))
    P.check("%s:ids" % tag, len(e.vertex_ids) == 2 and e.vertex_ids[0] == vids[0] and e.vertex_ids[1] == vids[1])
    P.check("%s:estimate_class" % tag, type(e.estimate) is cls)
    est = e.estimate.to_array()
    if cls is g.PoseSE3:
        # the measurement is normalised to the representative with non-negative scalar part
        P.check_eq("%s:estimate_translation" % tag, est[:3], vals[:3], exact=True)
        if P.is_true(vals[6] >= 0.0):
            P.check_eq("%s:estimate_quaternion" % tag, est[3:], vals[3:], tol=1e-12)
        else:
            P.check_eq("%s:estimate_quaternion_flipped" % tag, est[3:], [-x for x in vals[3:]], tol=1e-12)
    else:
        P.check_eq("%s:estimate" % tag, est, vals, exact=True)
    P.check("%s:information_shape" % tag, tuple(np.shape(e.information)) == (len(full), len(full)))
    P.check_eq("%s:information" % tag, e.information, full, exact=True)
    if spec.kind == "lmk":
        (ocls, ovals), oid = spec.expect[4], spec.expect[5]
        P.check("%s:offset_class" % tag, type(e.offset) is ocls)
        P.check_eq("%s:offset" % tag, e.offset.to_array(), ovals, exact=True)
        P.check("%s:offset_id" % tag, e.offset_id == oid)


def check_param(P, tag, params, expect):
    name, pid, cls, vals = expect
    key = (name, pid)
    P.check("%s:present" % tag, key in params)
    prm = params[key]
    P.check("%s:key" % tag, prm.key[0] == name and prm.key[1] == pid)
    P.check("%s:class" % tag, type(prm.value) is cls)
    P.check_eq("%s:value" % tag, prm.value.to_array(), vals, exact=True)


JUNK = [
    "# a comment line", "", "   ", "FIX 0", "VERTEX_SE2", "EDGE_SE2_XYZ 1 2 3", "VERTEX_SE3 1 2 3 4", "PARAMS_CAMERAPARAMETERS 0 1 2 3",
    # characters that str.splitlines() treats as line breaks but a text file does not
    "# old value:\x0cVERTEX_SE2 7 5 5 0.5", "# note\x1eVERTEX_XY 8 1 1", "# see\u2028VERTEX_TRACKXYZ 9 1 1 1", "VERTEX_XYZ 2 7 7 7", "VERTEX_SE2_PRIOR 1 9 9 1.5",
]


def _file_case(names, sepname, junk_positions, entry):
    """names: keys of the line kinds in file order"""

    def fn(P, g):
        fs = install_io(P, g)
        logs = capture_logs(g)
        ids = {k: P.int("id_" + k) for k in ("a2", "b2", "a3", "b3", "l2", "l3", "p2")}
        P.distinct(list(ids.values()))
        pid = P.int("pid")
        S = make_specs(P, g, ids, pid)
        sep, eol = SEPS[sepname]
        lines, n_junk_nonblank = [], 0
        for pos, nm in enumerate(names):
            if pos in junk_positions:
                j = JUNK[(pos * 3 + len(names)) % len(JUNK)]
                lines.append(j + ("\n" if eol == "" else eol))
                n_junk_nonblank += 1 if j.strip() else 0
                j2 = JUNK[(pos * 5 + 1) % len(JUNK)]
                lines.append(j2 + ("\n" if eol == "" else eol))
                n_junk_nonblank += 1 if j2.strip() else 0
            last = pos == len(names) - 1
            lines.append(S[nm].text(sep, eol if (eol or last) else "\n") if (eol or last) else S[nm].text(sep, "\n"))
        fs.files["in.g2o"] = "".join(lines)
        DistEdge = custom_edge_class(g, P)
        custom = [DistEdge] if "EDGE_DIST" in names else None
        loaders = {
            "Graph.from_g2o": lambda: g.Graph.from_g2o("in.g2o", custom_edge_types=custom) if custom else g.Graph.from_g2o("in.g2o"),
            "load_g2o": lambda: g.load_mod.load_g2o("in.g2o"),
            "load_g2o_r2": lambda: g.load_mod.load_g2o_r2("in.g2o"),
            "load_g2o_r3": lambda: g.load_mod.load_g2o_r3("in.g2o"),
            "load_g2o_se2": lambda: g.load_mod.load_g2o_se2("in.g2o"),
            "load_g2o_se3": lambda: g.load_mod.load_g2o_se3("in.g2o"),
        }
        if custom and entry != "Graph.from_g2o":
            return
        graph = loaders[entry]()
        warn = [r for r in logs.records if r.levelno >= 30]
        P.check("warnings_one_per_unrecognised_line", len(warn) == n_junk_nonblank)
        exp_v = [S[nm] for nm in names if S[nm].kind == "vertex"]
        exp_e = [S[nm] for nm in names if S[nm].kind in ("odom", "lmk", "custom")]
        exp_p = [S[nm] for nm in names if S[nm].kind == "param"]
        P.check("vertex_count", len(graph._vertices) == len(exp_v))
        P.check("edge_count", len(graph._edges) == len(exp_e))
        for i, (v, sp) in enumerate(zip(graph._vertices, exp_v)):
            check_vertex(P, "v%d(%s)" % (i, sp.kw), v, sp.expect)
        for i, (e, sp) in enumerate(zip(graph._edges, exp_e)):
            check_edge(P, g, "e%d(%s)" % (i, sp.kw), e, sp)
            # bound to the vertices named on the line
            P.check("e%d:bound" % i, len(e.vertices) == 2 and e.vertices[0].id == e.vertex_ids[0] and e.vertices[1].id == e.vertex_ids[1])
        params = graph._g2o_params or {}
        P.check("param_count", len(params) == len(exp_p))
        for i, sp in enumerate(exp_p):
            check_param(P, "p%d(%s)" % (i, sp.kw), params, sp.expect)

    return fn


def _entry_points_agree(names):
    def fn(P, g):
        fs = install_io(P, g)
        capture_logs(g)
        ids = {k: P.int("id_" + k) for k in ("a2", "b2", "a3", "b3", "l2", "l3", "p2")}
        P.distinct(list(ids.values()))
        pid = P.int("pid")
        S = make_specs(P, g, ids, pid)
        fs.files["in.g2o"] = "".join(S[nm].text(" ", "\n") for nm in names)
        graphs = [g.Graph.from_g2o("in.g2o"), g.load_mod.load_g2o("in.g2o"), g.load_mod.load_g2o_r2("in.g2o"), g.load_mod.load_g2o_r3("in.g2o"), g.load_mod.load_g2o_se2("in.g2o"), g.load_mod.load_g2o_se3("in.g2o")]
        ref = graphs[0]
        for k, gr in enumerate(graphs[1:]):
            P.check("same_counts_%d" % k, len(gr._vertices) == len(ref._vertices) and len(gr._edges) == len(ref._edges) and type(gr) is type(ref))
            for a, b in zip(gr._vertices, ref._vertices):
                P.check("same_vertex_id_%d" % k, a.id == b.id and type(a.pose) is type(b.pose))
                P.check_eq("same_vertex_pose_%d" % k, a.pose.to_array(), b.pose.to_array(), exact=True)
            for a, b in zip(gr._edges, ref._edges):
                P.check("same_edge_type_%d" % k, type(a) is type(b))
                P.check_eq("same_edge_estimate_%d" % k, a.estimate.to_array(), b.estimate.to_array(), exact=True)
                P.check_eq("same_edge_information_%d" % k, a.information, b.information, exact=True)
            P.check_eq("same_chi2_%d" % k, gr.calc_chi2(), ref.calc_chi2(), tol=1e-12)

    return fn


def _long_junk_blocks(names):
    """long blocks of unrecognised lines (a 14-line header, a 12-line block in the middle, a 13-line trailer): every
    non-blank one is skipped with its own warning and nothing else changes"""

    def fn(P, g):
        fs = install_io(P, g)
        logs = capture_logs(g)
        ids = {k: P.int("id_" + k) for k in ("a2", "b2", "a3", "b3", "l2", "l3", "p2")}
        P.distinct(list(ids.values()))
        pid = P.int("pid")
        S = make_specs(P, g, ids, pid)

        def block(n, off):
            return [JUNK[(off + 3 * i) % len(JUNK)] for i in range(n)]

        head, mid, tail = block(14, 0), block(12, 5), block(13, 2)
        body = [S[nm].text(" ", "\n") for nm in names]
        half = len(body) // 2
        text = "".join(j + "\n" for j in head) + "".join(body[:half]) + "".join(j + "\n" for j in mid) + "".join(body[half:]) + "".join(j + "\n" for j in tail)
        fs.files["in.g2o"] = text
        n_junk = len([j for j in head + mid + tail if j.strip()])
        graph = g.Graph.from_g2o("in.g2o")
        P.check("warnings_one_per_unrecognised_line", len([r for r in logs.records if r.levelno >= 30]) == n_junk)
        exp_v = [S[nm] for nm in names if S[nm].kind == "vertex"]
        exp_e = [S[nm] for nm in names if S[nm].kind in ("odom", "lmk")]
        P.check("vertex_count", len(graph._vertices) == len(exp_v))
        P.check("edge_count", len(graph._edges) == len(exp_e))
        for i, (v, sp) in enumerate(zip(graph._vertices, exp_v)):
            check_vertex(P, "v%d(%s)" % (i, sp.kw), v, sp.expect)
        for i, (e, sp) in enumerate(zip(graph._edges, exp_e)):
            check_edge(P, g, "e%d(%s)" % (i, sp.kw), e, sp)
        # the deprecated entry point sees the same file the same way
        before = len([r for r in logs.records if r.levelno >= 30])
        g2 = g.load_mod.load_g2o("in.g2o")
        P.check("load_g2o_same_counts", len(g2._vertices) == len(exp_v) and len(g2._edges) == len(exp_e))
        P.check("load_g2o_same_warnings", len([r for r in logs.records if r.levelno >= 30]) - before == n_junk)

    return fn


def _load_history(P, g):
    """loads do not leave anything behind: after Graph.from_g2o(file, custom_edge_types=[DistEdge]) the same file loaded
    WITHOUT custom types (through either entry point) skips the custom line with one warning, and a load with the custom
    type afterwards sees it again"""
    fs = install_io(P, g)
    logs = capture_logs(g)
    ids = {k: P.int("id_" + k) for k in ("a2", "b2", "a3", "b3", "l2", "l3", "p2")}
    P.distinct(list(ids.values()))
    pid = P.int("pid")
    S = make_specs(P, g, ids, pid)
    fs.files["in.g2o"] = "".join(S[nm].text(" ", "\n") for nm in CUSTOM_FILE)
    DistEdge = custom_edge_class(g, P)
    n_edges_plain = len([nm for nm in CUSTOM_FILE if S[nm].kind in ("odom", "lmk")])
    n_edges_custom = n_edges_plain + 1
    first = g.Graph.from_g2o("in.g2o", custom_edge_types=[DistEdge])
    P.check("first_load_with_custom", len(first._edges) == n_edges_custom and len([r for r in logs.records if r.levelno >= 30]) == 0)
    for k, loader in enumerate([lambda: g.Graph.from_g2o("in.g2o"), lambda: g.load_mod.load_g2o("in.g2o"), lambda: g.Graph.from_g2o("in.g2o", custom_edge_types=[])]):
        before = len([r for r in logs.records if r.levelno >= 30])
        gr = loader()
        P.check("plain_load_%d_skips_custom_line" % k, len(gr._edges) == n_edges_plain and not any(type(e).__name__ == "DistEdge" for e in gr._edges))
        P.check("plain_load_%d_warns_once" % k, len([r for r in logs.records if r.levelno >= 30]) - before == 1)
    again = g.Graph.from_g2o("in.g2o", custom_edge_types=[DistEdge])
    P.check("custom_load_again", len(again._edges) == n_edges_custom and len(first._edges) == n_edges_custom)


SE2_FILE = ["VERTEX_SE2:a2", "VERTEX_SE2:b2", "VERTEX_XY", "EDGE_SE2", "EDGE_SE2_XY", "PARAMS_SE2OFFSET"]
SE3_FILE = ["PARAMS_SE3OFFSET", "VERTEX_SE3:QUAT:a3", "VERTEX_SE3:QUAT:b3", "VERTEX_TRACKXYZ", "EDGE_SE3:QUAT", "EDGE_SE3_TRACKXYZ"]
CUSTOM_FILE = ["VERTEX_SE3:QUAT:a3", "VERTEX_SE3:QUAT:b3", "EDGE_DIST", "EDGE_SE3:QUAT"]


def _legal(order):
    """parameters before the edge that uses them"""
    if "EDGE_SE3_TRACKXYZ" in order and "PARAMS_SE3OFFSET" in order:
        return order.index("PARAMS_SE3OFFSET") < order.index("EDGE_SE3_TRACKXYZ")
    return True


EXTREMES = [1.2e308, -9.5e307, 1.7976931348623157e308, 1e300, -1e300, 5e-324, -2.2250738585072014e-308, 1e-310, 2.0 ** 53 + 2.0, 1e22, 0.1, -0.0]


def _extreme_file(names):
    """the ordinary file case; its float64 validation runs draw the numbers of the file from doubles of extreme magnitude
    (close to overflow, subnormal): what is loaded is still exactly what the text says"""
    inner = _file_case(list(names), "space", set(), "Graph.from_g2o")

    def fn(P, g):
        P.draw_from(EXTREMES)
        return inner(P, g)

    return fn


def cases(tier):
    out = []
    v = 1
    n = 0
    out.append(Case("extreme-magnitudes-se2", _extreme_file(SE2_FILE), timeout=10, old_timeout=20, validate=4, feas_timeout_ms=1000, val_tol=1e-9, shadow=False))
    out.append(Case("extreme-magnitudes-se3", _extreme_file(SE3_FILE), timeout=10, old_timeout=20, validate=4, feas_timeout_ms=1000, val_tol=1e-9, shadow=False))

    def add(names, sep, junk, entry="Graph.from_g2o"):
        nonlocal n
        n += 1
        out.append(Case("file%03d-%s-%s-j%s-%s" % (n, "+".join(x.split(":")[0][:12] for x in names)[:60], sep, "".join(map(str, sorted(junk))) or "_", entry), _file_case(list(names), sep, set(junk), entry), timeout=10, old_timeout=20, validate=v, feas_timeout_ms=1000, val_tol=1e-9))

    # every vocabulary line in its smallest legal file, every separator style
    for sep in SEPS:
        add(SE2_FILE, sep, ())
        add(SE3_FILE, sep, ())
    add(CUSTOM_FILE, "space", ())
    add(CUSTOM_FILE, "tabs", (1, 2))
    # junk lines at every position
    for pos in range(len(SE2_FILE)):
        add(SE2_FILE, "space", (pos,))
    add(SE3_FILE, "crlf", (0, 3, 5))
    # line orders
    import random

    rnd = random.Random(7)
    orders2 = [p for p in itertools.permutations(SE2_FILE)]
    orders3 = [p for p in itertools.permutations(SE3_FILE) if _legal(p)]
    pick2 = rnd.sample(orders2, 6 if tier == "quick" else 60)
    pick3 = rnd.sample(orders3, 6 if tier == "quick" else len(orders3) // 2)
    for o in pick2:
        add(o, "space", ())
    for o in pick3:
        add(o, "space", ())
    # every entry point
    for entry in ["load_g2o", "load_g2o_r2", "load_g2o_r3", "load_g2o_se2", "load_g2o_se3"]:
        add(SE2_FILE, "space", (2,), entry)
        add(SE3_FILE, "tabs", (), entry)
    out.append(Case("long-junk-blocks-se2", _long_junk_blocks(SE2_FILE), timeout=10, old_timeout=20, validate=1, feas_timeout_ms=1000, val_tol=1e-9))
    out.append(Case("long-junk-blocks-se3", _long_junk_blocks(SE3_FILE), timeout=10, old_timeout=20, validate=1, feas_timeout_ms=1000, val_tol=1e-9))
    out.append(Case("load-history-custom-types", _load_history, timeout=10, validate=1, feas_timeout_ms=1000))
    out.append(Case("entrypoints-se2", _entry_points_agree(SE2_FILE), timeout=10, validate=1, feas_timeout_ms=1000))
    out.append(Case("entrypoints-se3", _entry_points_agree(SE3_FILE), timeout=10, validate=1, feas_timeout_ms=1000))
    return out


# ------------------------------------------------------------------------------------------------
# clause (b): CrossHair on symbolic lines
# ------------------------------------------------------------------------------------------------
def extra_checks(tier):
    import ast
    import json
    import os
    import re
    import subprocess
    import time

    here = os.path.dirname(os.path.abspath(__file__))
    target = os.path.join(here, "c14_dispatch_crosshair.py")
    src = open(target).read()
    tree = ast.parse(src)
    funcs = [(n.name, n.lineno, n.end_lineno) for n in tree.body if isinstance(n, ast.FunctionDef)]
    ns = {}
    exec(compile("CLAIMS=%r\nTWINS=%r" % (_const(tree, "CLAIMS"), _const(tree, "TWINS")), "<c>", "exec"), ns)
    claims, twins = ns["CLAIMS"], ns["TWINS"]
    tmo = int(os.environ.get("VERIF_CROSSHAIR_TIMEOUT", 40 if tier == "quick" else 120))
    t0 = time.time()
    env = dict(os.environ)
    env["PYTHONDONTWRITEBYTECODE"] = "1"
    p = subprocess.run(["python3-vt", "-m", "crosshair", "check", "--report_all", "--per_condition_timeout", str(tmo), target], capture_output=True, text=True, env=env, timeout=tmo * 12 + 120)
    verdict = {}

    def absorb(text, replace=False):
        seen = set()
        for line in text.splitlines():
            m = re.match(r"^(.*?):(\d+): (info|error): (.*)$", line)
            if not m:
                continue
            ln, kind, msg = int(m.group(2)), m.group(3), m.group(4)
            fn = next((name for name, a, b in funcs if a <= ln <= b), None)
            if fn:
                if replace and fn not in seen:
                    verdict[fn] = []
                seen.add(fn)
                verdict.setdefault(fn, []).append((kind, msg))

    absorb(p.stdout + p.stderr)
    # CrossHair's per-condition budget is wall-clock: a condition (or twin) left without a verdict on a loaded machine gets
    # one more run of its own with four times the budget
    for fn in list(claims) + list(twins):
        vs = verdict.get(fn, [])
        done = any(k == "error" for k, _m in vs) or any("Confirmed over all paths" in m for _k, m in vs)
        if not done:
            line = next(a for name, a, b in funcs if name == fn) + 1
            p2 = subprocess.run(["python3-vt", "-m", "crosshair", "check", "--report_all", "--per_condition_timeout", str(4 * tmo), "%s:%d" % (target, line)], capture_output=True, text=True, env=env, timeout=tmo * 8 + 120)
            absorb(p2.stdout + p2.stderr, replace=True)
    secs = time.time() - t0
    out = []
    for fn in claims:
        vs = verdict.get(fn, [])
        if any(k == "info" and "Confirmed over all paths" in m for k, m in vs) and not any(k == "error" for k, m in vs):
            out.append({"name": "crosshair:" + fn, "status": "proved", "route": "crosshair", "secs": secs / max(1, len(claims)), "sample": "Confirmed over all paths (symbolic str, |line|<=20, %ds per condition)" % tmo})
            continue
        errs = [m for k, m in vs if k == "error"]
        rec = {"name": "crosshair:" + fn, "status": "unknown", "route": "crosshair", "secs": secs / max(1, len(claims)), "detail": "; ".join(m for _k, m in vs)[:400] or "no verdict reported"}
        for msg in errs:
            mm = re.search(r"when calling (\w+)\((.*)\)(?: \(which|$)", msg)
            if not mm:
                continue
            try:
                call = ast.parse("f(%s)" % mm.group(2), mode="eval").body
                names = [a.arg for a in next(n for n in tree.body if isinstance(n, ast.FunctionDef) and n.name == fn).args.args]
                kwargs = {names[i]: ast.literal_eval(a) for i, a in enumerate(call.args)}
                kwargs.update({k.arg: ast.literal_eval(k.value) for k in call.keywords})
            except Exception:
                continue
            r = subprocess.run(["/venv/bin/python", target, json.dumps({"fn": fn, "kwargs": kwargs})], capture_output=True, text=True, env=env, timeout=120)
            try:
                res = json.loads(r.stdout.strip().splitlines()[-1])
            except Exception:
                continue
            if not res["holds"]:
                rec["status"] = "violated"
                rec["replay"] = {"kind": "crosshair", "fn": fn, "kwargs": kwargs, "message": (res["error"] or "claim returned False") + " | " + msg[:200]}
                break
        out.append(rec)
    for fn in twins:
        vs = verdict.get(fn, [])
        refuted = any(k == "error" and "false when calling" in m for k, m in vs)
        out.append({"name": "crosshair-twin:" + fn, "status": "proved" if refuted else "unknown", "route": "crosshair-reachability-twin", "secs": 0.0, "sample": "reachability twin refuted as required" if refuted else "", "detail": "reachability twin was NOT refuted: precondition may be vacuous"})
    return out


def _const(tree, name):
    import ast

    for n in tree.body:
        if isinstance(n, ast.Assign) and getattr(n.targets[0], "id", None) == name:
            return ast.literal_eval(n.value)
    return []


def replay_extra(spec):
    import json
    import os
    import subprocess

    here = os.path.dirname(os.path.abspath(__file__))
    target = os.path.join(here, "c14_dispatch_crosshair.py")
    r = subprocess.run(["/venv/bin/python", target, json.dumps({"fn": spec["fn"], "kwargs": spec["kwargs"]})], capture_output=True, text=True, timeout=120)
    res = json.loads(r.stdout.strip().splitlines()[-1])
    return (not res["holds"]), res.get("error") or "claim returned False"
