"""C17 - equals is a sound, total tolerance comparison."""
import itertools

from .common import COMPACT, FULL, POINT_OF, POSE_KINDS, Case, mk_pose, pose_cls

PROPERTY = "C17"
EXPLANATION = (
    "The real BasePose.equals, Vertex.equals, BaseEdge.equals, EdgeLandmark.equals and Graph.equals are executed on solver "
    "variables for every ordered pair of kinds within each category (4 pose types; vertices of each type; odometry edges of 4 "
    "types, landmark edges of 4 types, custom edges with array and with scalar estimate; graphs differing in size, type and "
    "order), on all paths of max(norm, tol). z3 proves: no pair raises; an object equals its copy; any mismatch of type / id / "
    "id order / length / shape gives False for ALL numeric values; for same-kind pairs the answer coincides with an "
    "independently written reference predicate (relative-norm closeness of every numeric field); and the tolerance band for "
    "poses: a perturbation d of one stored component with |d| <= 1e-3 * tol * max(|a|, tol) gives True in BOTH directions and "
    "|d| >= 1e3 * tol * max(|a|, tol) gives False in both directions (tol symbolic in (0, 0.1])."
)
BOUNDS = "all ordered kind pairs (16 pose, 16 vertex, 100 edge, 8 graph variants); band: R2/R3/SE2 fully general, SE(3) with the unperturbed components restricted to one free component plus zeros"
OUTSIDE = "rounding; SE(2) angle perturbations that cross the +-pi wrap (stored components are perturbed inside the valid range)"
ASSUMPTIONS = ["0 < tol <= 0.1", "sqrt contract for norms", "unit quaternions / wrapped angles in stored poses"]


def close(P, x, y, tol):
    """reference closeness predicate written from the docstrings: |x - y| / max(|x|, tol) < tol"""
    np = P.np
    import numpy

    xa, ya = numpy.array(x, dtype=object if P.symbolic else float).reshape(-1), numpy.array(y, dtype=object if P.symbolic else float).reshape(-1)
    if xa.shape != ya.shape:
        return False
    d2 = 0.0
    n2 = 0.0
    for a, b in zip(xa, ya):
        d2 = d2 + (a - b) * (a - b)
        n2 = n2 + a * a
    nd, nx = np.sqrt(d2), np.sqrt(n2)
    # |x - y| / max(|x|, tol) < tol ; the max is decided on the current path (the same comparison the code makes)
    M = tol if P.is_true(tol > nx) else nx
    return nd / M < tol


def safe(P, tag, thunk):
    try:
        return True, thunk()
    except Exception as e:  # noqa
        P.fail("%s:raised" % tag, "%s: %s" % (type(e).__name__, str(e)[:60]))
        return False, None


def _tol(P):
    return P.real("tol", lo=1e-9, hi=0.1) if P.symbolic else P._get("tol", lambda: P.rng.choice([1e-9, 1e-6, 1e-3, 0.1]))


# ------------------------------------------------------------------ poses
def _pose_pair(k1, k2):
    def fn(P, g):
        tol = _tol(P)
        a = mk_pose(P, g, k1, "a", wrapped=True)
        b = mk_pose(P, g, k2, "b", wrapped=True)
        ok, r = safe(P, "equals", lambda: a.equals(b, tol))
        if not ok:
            return
        if k1 != k2:
            P.check("different_types_false", P.same_truth(r, False))
        else:
            P.check("matches_reference", P.same_truth(r, close(P, a.to_array(), b.to_array(), tol)))
            ok, r2 = safe(P, "copy", lambda: a.equals(a.copy(), tol))
            if ok:
                P.check("copy_true", P.same_truth(r2, True))
            ok, r3 = safe(P, "self", lambda: a.equals(a, tol))
            if ok:
                P.check("self_true", P.same_truth(r3, True))

    return fn


def _band(kind, comp, big):
    def fn(P, g):
        np = P.np
        tol = _tol(P)
        n = FULL[kind]
        if kind == "SE3":
            # restricted shape: one free unperturbed component, the rest zero (by the symmetry of the norm)
            vals = [0.0] * n
            vals[(comp + 1) % n] = P.real("free")
            vals[comp] = P.real("own")
        else:
            vals = P.reals("a", n)
        a2 = 0.0
        for x in vals:
            a2 = a2 + x * x
        na = np.sqrt(a2)
        M = na if P.is_true(na >= tol) else tol
        if big:
            d = P.sampled_real("d", lambda rng: rng.choice([-1.0, 1.0]) * 1000.0 * float(tol) * float(M) * (1.0 + abs(rng.gauss(0, 1))))
            P.assume(P.either(d >= 1000.0 * tol * M, d <= -1000.0 * tol * M))
        else:
            d = P.sampled_real("d", lambda rng: rng.uniform(-1.0, 1.0) * 0.001 * float(tol) * float(M))
            P.assume(P.both(d <= 0.001 * tol * M, d >= -0.001 * tol * M))
        bvals = list(vals)
        bvals[comp] = vals[comp] + d
        cls = pose_cls(g, kind)
        import numpy

        def mk(v):
            # raw stored components: equals compares the stored arrays (no wrap / normalisation on the way)
            return numpy.array(v, dtype=object if P.symbolic else float).view(cls)

        a, b = mk(vals), mk(bvals)
        ok1, r1 = safe(P, "ab", lambda: a.equals(b, tol))
        ok2, r2 = safe(P, "ba", lambda: b.equals(a, tol))
        if ok1 and ok2:
            P.check("a_equals_b", P.same_truth(r1, not big))
            P.check("b_equals_a", P.same_truth(r2, not big))

    return fn


# ------------------------------------------------------------------ vertices
def _vertex_pair(k1, k2):
    def fn(P, g):
        tol = _tol(P)
        i1, i2 = P.int("i1"), P.int("i2")
        a = g.Vertex(i1, mk_pose(P, g, k1, "a", wrapped=True))
        b = g.Vertex(i2, mk_pose(P, g, k2, "b", wrapped=True))
        ok, r = safe(P, "equals", lambda: a.equals(b, tol))
        if not ok:
            return
        if k1 != k2:
            P.check("different_pose_types_false", P.same_truth(r, False))
        else:
            ref = P.both(i1 == i2, close(P, a.pose.to_array(), b.pose.to_array(), tol))
            P.check("matches_reference", P.same_truth(r, ref))
            c = g.Vertex(i1, a.pose.copy(), fixed=True)
            ok, r2 = safe(P, "copy", lambda: a.equals(c, tol))
            if ok:
                P.check("copy_true", P.same_truth(r2, True))

    return fn


# ------------------------------------------------------------------ edges
EDGE_KINDS = [("odom", k) for k in POSE_KINDS] + [("lmk", k) for k in POSE_KINDS] + [("custom", "array"), ("custom", "scalar")]


def _custom_cls(g):
    if getattr(g, "_c17_custom", None) is None:

        class CustomEdge(g.BaseEdge):
            def calc_error(self):
                return 0.0

            def is_valid(self):
                return True

        g._c17_custom = CustomEdge
    return g._c17_custom


def _mk_edge(P, g, ek, name, ids):
    np = P.np
    typ, k = ek
    if typ == "odom":
        n = COMPACT[k]
        return g.EdgeOdometry(list(ids), P.sym_matrix(name + "om", n), mk_pose(P, g, k, name + "z", wrapped=True))
    if typ == "lmk":
        n = COMPACT[POINT_OF[k]]
        return g.EdgeLandmark(list(ids), P.sym_matrix(name + "om", n), mk_pose(P, g, POINT_OF[k], name + "z"), mk_pose(P, g, k, name + "off", wrapped=True), offset_id=P.int(name + "oid"))
    C = _custom_cls(g)
    if k == "array":
        return C(list(ids), P.sym_matrix(name + "om", 2), P.vector(name + "z", 2))
    return C(list(ids), P.sym_matrix(name + "om", 1), P.real(name + "z"))


def _edge_ref(P, g, a, b, tol):
    """reference: same ids in the same order, information close, estimate close (and offset / offset id for landmark edges)"""
    import numpy

    ref = True
    for x, y in zip(a.vertex_ids, b.vertex_ids):
        ref = P.both(ref, x == y)
    ref = P.both(ref, close(P, a.information, b.information, tol))
    ea = a.estimate.to_array() if hasattr(a.estimate, "to_array") else numpy.array([a.estimate], dtype=object if P.symbolic else float).reshape(-1)
    eb = b.estimate.to_array() if hasattr(b.estimate, "to_array") else numpy.array([b.estimate], dtype=object if P.symbolic else float).reshape(-1)
    ref = P.both(ref, close(P, ea, eb, tol))
    if hasattr(a, "offset"):
        ref = P.both(ref, close(P, a.offset.to_array(), b.offset.to_array(), tol))
        ref = P.both(ref, a.offset_id == b.offset_id)
    return ref


def _edge_pair(e1, e2):
    def fn(P, g):
        tol = _tol(P)
        ia = [P.int("a0"), P.int("a1")]
        ib = [P.int("b0"), P.int("b1")]
        a = _mk_edge(P, g, e1, "A", ia)
        b = _mk_edge(P, g, e2, "B", ib)
        ok, r = safe(P, "equals", lambda: a.equals(b, tol))
        if not ok:
            return
        if e1 != e2:
            P.check("different_kinds_false", P.same_truth(r, False))
            return
        P.check("matches_reference", P.same_truth(r, _edge_ref(P, g, a, b, tol)))
        # structural mismatches give False whatever the numbers are
        c = _mk_edge(P, g, e1, "A", ia)  # same symbols: a copy
        ok, r2 = safe(P, "copy", lambda: a.equals(c, tol))
        if ok:
            P.check("copy_true", P.same_truth(r2, True))
        c.vertex_ids = [ia[0]]
        ok, r3 = safe(P, "fewer_ids", lambda: a.equals(c, tol))
        if ok:
            P.check("id_count_mismatch_false", P.same_truth(r3, False))
        c.vertex_ids = [ia[0], ia[1], ia[1]]
        ok, r4 = safe(P, "more_ids", lambda: a.equals(c, tol))
        if ok:
            P.check("id_count_mismatch_false2", P.same_truth(r4, False))
        c.vertex_ids = list(ia)
        n = c.information.shape[0]
        c.information = P.full_matrix("Cwide", n, n + 1)
        ok, r5 = safe(P, "info_shape", lambda: a.equals(c, tol))
        if ok:
            P.check("information_shape_mismatch_false", P.same_truth(r5, False))
        ok, r6 = safe(P, "info_shape_rev", lambda: c.equals(a, tol))
        if ok:
            P.check("information_shape_mismatch_false_rev", P.same_truth(r6, False))

    return fn


def _edge_history(ek):
    """equals() is a function of the CURRENT values: an edge that has already taken part in comparisons has its
    information edited IN PLACE (same array object) and is compared again"""

    def fn(P, g):
        tol = _tol(P)
        ia = [P.int("a0"), P.int("a1")]
        a = _mk_edge(P, g, ek, "A", ia)
        b = _mk_edge(P, g, ek, "B", [P.int("b0"), P.int("b1")])
        safe(P, "first", lambda: a.equals(b, tol))
        n = a.information.shape[0]
        a.information[:] = P.sym_matrix("A2om", n)  # in place: the array object stays the same
        ok, r = safe(P, "second", lambda: a.equals(b, tol))
        if ok:
            P.check("after_edit_matches_reference", P.same_truth(r, _edge_ref(P, g, a, b, tol)))

    return fn


def _edge_offset_types(P, g):
    """landmark edges whose offsets (or offset ids) are of different kinds"""
    tol = _tol(P)
    np = P.np
    ids = [P.int("a0"), P.int("a1")]
    z = mk_pose(P, g, "R2", "z")
    om = P.sym_matrix("om", 2)
    a = g.EdgeLandmark(list(ids), om, z, mk_pose(P, g, "SE2", "o1", wrapped=True), offset_id=3)
    b = g.EdgeLandmark(list(ids), om, z, mk_pose(P, g, "R3", "o2"), offset_id=3)
    c = g.EdgeLandmark(list(ids), om, z, a.offset.copy(), offset_id=None)
    for tag, x, y, expect in (("offset_types", a, b, False), ("offset_types_rev", b, a, False), ("offset_id_none", a, c, False), ("offset_id_none_rev", c, a, False)):
        ok, r = safe(P, tag, lambda: x.equals(y, tol))
        if ok:
            P.check(tag, P.same_truth(r, expect))
    d = g.EdgeLandmark(list(ids), om, z, a.offset.copy(), offset_id=None)
    ok, r = safe(P, "both_none", lambda: c.equals(d, tol))
    if ok:
        P.check("both_offset_ids_none_true", P.same_truth(r, True))
    # estimates of different pose types (same size!) in otherwise identical odometry edges
    e1 = g.EdgeOdometry(list(ids), P.sym_matrix("om3", 3), g.PoseR3(P.reals("t", 3)))
    e2 = g.EdgeOdometry(list(ids), e1.information, g.PoseSE2([e1.estimate[0], e1.estimate[1]], e1.estimate[2]))
    for tag, x, y in (("estimate_types", e1, e2), ("estimate_types_rev", e2, e1)):
        ok, r = safe(P, tag, lambda: x.equals(y, tol))
        if ok:
            P.check(tag + "_false", P.same_truth(r, False))


    # a raw-array estimate against a pose estimate holding the same numbers (custom edges of one class)
    C = _custom_cls(g)
    nums = P.vector("cz", 2)
    c1 = C(list(ids), om, nums)
    c2 = C(list(ids), om, g.PoseR2([nums[0], nums[1]]))
    for tag, x, y in (("array_vs_pose_estimate", c1, c2), ("pose_vs_array_estimate", c2, c1)):
        ok, r = safe(P, tag, lambda: x.equals(y, tol))
        if ok:
            P.check(tag + "_false", P.same_truth(r, False))


# ------------------------------------------------------------------ graphs
GRAPH_VARIANTS = ["copy", "vertex_order", "edge_order", "other_types", "smaller", "fewer_edges", "last_vertex_moved", "last_vertex_id", "dense_copy", "last_edge_differs"]


def _graphs(which):
    """one variant per case (the paths of max(norm, tol) multiply inside a case)"""

    def fn(P, g):
        tol = _tol(P)
        np = P.np

        def build(kinds, order=(0, 1, 2), eorder=(0, 1)):
            v = [g.Vertex(i, mk_pose(P, g, kinds[i], "v%d" % i, wrapped=True)) for i in range(3)]
            e = [g.EdgeOdometry([0, 1], np.eye(COMPACT[kinds[0]]), mk_pose(P, g, kinds[0], "z0", wrapped=True)), g.EdgeLandmark([1, 2], np.eye(COMPACT[kinds[2]]), mk_pose(P, g, kinds[2], "z1"), mk_pose(P, g, kinds[1], "off", wrapped=True), offset_id=0)]
            return g.Graph([e[k] for k in eorder], [v[k] for k in order])

        def dense(shift):
            v = [g.Vertex(i, mk_pose(P, g, "R2", "d%d" % i)) for i in range(2)]
            e = [g.EdgeOdometry([0, 1], np.eye(2), g.PoseR2([P.real("dz%d" % k, lo=-3.0, hi=3.0) + (shift if k == 2 else 0.0), 0.5])) for k in range(3)]
            return g.Graph(e, v)

        def expect(tag, x, y, val):
            for t, a, b in ((tag, x, y), (tag + "_rev", y, x)):
                ok, r = safe(P, t, lambda: a.equals(b, tol))
                if ok:
                    P.check(t + ("_true" if val else "_false"), P.same_truth(r, val))

        if which in ("dense_copy", "last_edge_differs"):
            d0 = dense(0.0)
            if which == "dense_copy":
                expect("dense_equal", d0, dense(0.0), True)
            else:
                # 3 edges over 2 vertices: the difference sits in the edge at index >= number of vertices
                expect("last_edge_differs", d0, dense(10.0), False)
            return
        if which == "last_vertex_moved":
            # bounded coordinates for the vertex that is moved (declared first so that both modes draw them in range)
            P.real("v2_0", lo=-3.0, hi=3.0)
            P.real("v2_1", lo=-3.0, hi=3.0)
        base = build(["SE2", "SE2", "R2"])
        if which == "copy":
            expect("equal_graphs", base, build(["SE2", "SE2", "R2"]), True)
        elif which == "vertex_order":
            expect(which, base, build(["SE2", "SE2", "R2"], order=(1, 0, 2)), False)
        elif which == "edge_order":
            expect(which, base, build(["SE2", "SE2", "R2"], eorder=(1, 0)), False)
        elif which == "other_types":
            expect(which, base, build(["SE3", "SE3", "R3"]), False)
        elif which == "smaller":
            expect(which, base, g.Graph([], [g.Vertex(0, mk_pose(P, g, "SE2", "v0", wrapped=True))]), False)
        elif which == "fewer_edges":
            fewer = build(["SE2", "SE2", "R2"])
            fewer._edges = fewer._edges[:1]
            expect(which, base, fewer, False)
        elif which == "last_vertex_moved":
            # 2 edges, 3 vertices: the difference sits only in the vertex at index >= number of edges
            for c in base._vertices[2].pose:
                P.assume(P.both(c >= -3.0, c <= 3.0))  # |a| <= 4.3, so a shift by 10 is far outside the relative tolerance
            moved = build(["SE2", "SE2", "R2"])
            moved._vertices[2].pose = g.PoseR2([moved._vertices[2].pose[0] + 10.0, moved._vertices[2].pose[1]])
            expect(which, base, moved, False)
        elif which == "last_vertex_id":
            other = build(["SE2", "SE2", "R2"])
            other._vertices[2].id = 77
            expect(which, base, other, False)

    return fn


def cases(tier):
    out = []
    for k1, k2 in itertools.product(POSE_KINDS, repeat=2):
        out.append(Case("pose-%s-%s" % (k1, k2), _pose_pair(k1, k2), timeout=20, old_timeout=30, validate=2, feas_timeout_ms=1500))
        out.append(Case("vertex-%s-%s" % (k1, k2), _vertex_pair(k1, k2), timeout=20, old_timeout=30, validate=2, feas_timeout_ms=1500))
    for e1, e2 in itertools.product(EDGE_KINDS, repeat=2):
        if tier == "quick" and e1 != e2 and (EDGE_KINDS.index(e1) + 3 * EDGE_KINDS.index(e2)) % 3 != 0:
            continue
        out.append(Case("edge-%s.%s-%s.%s" % (e1 + e2), _edge_pair(e1, e2), timeout=20, old_timeout=30, validate=1, feas_timeout_ms=1500))
    for ek in EDGE_KINDS if tier == "thorough" else []:  # thorough tier only: 40 s per edge kind
        out.append(Case("edge-history-inplace-%s.%s" % ek, _edge_history(ek), timeout=30, old_timeout=60, validate=2, feas_timeout_ms=1500))
    out.append(Case("edge-offset-and-estimate-types", _edge_offset_types, timeout=20, validate=2, feas_timeout_ms=1500))
    for which in GRAPH_VARIANTS:
        out.append(Case("graphs-" + which, _graphs(which), timeout=20, validate=2, feas_timeout_ms=1500))
    for kind in POSE_KINDS:
        comps = range(FULL[kind]) if (tier == "thorough" or kind != "SE3") else (0, 6)
        for comp in comps:
            for big in (False, True):
                out.append(Case("band-%s-c%d-%s" % (kind, comp, "far" if big else "near"), _band(kind, comp, big), timeout=60 if tier == "quick" else 300, old_timeout=60 if tier == "quick" else 300, validate=2, feas_timeout_ms=3000))
    return out
