"""C01 - analytic edge Jacobians are the exact derivative of the edge error (w.r.t. the boxplus perturbation)."""
from .common import COMPACT, EDGE_KINDS, POINT_OF, Case, mk_edge

PROPERTY = "C01"
EXPLANATION = (
    "Bounded symbolic execution of the real EdgeOdometry/EdgeLandmark.calc_error and calc_jacobians (and through them the "
    "pose +, -, inverse, boxplus, to_compact and jacobian_* methods) on solver variables. Each vertex pose is replaced by "
    "pose [+] delta computed by the real boxplus with delta = e_j as a dual number; z3 proves, for all poses / unit "
    "quaternions / angles / measurements / offsets at once, that the tangent of every error component equals entry [i][j] "
    "of the reported Jacobian."
)
BOUNDS = "8 edge kinds (fresh edge, and after a history: all queries evaluated once, then vertices moved in place / rebound; both vertices marked fixed; arbitrary symmetric information matrix) x 2 vertices x every error component x every perturbation direction; exact real arithmetic (no rounding); SE(2) wrap excluded (derivative taken on the branch k=const)"
OUTSIDE = "floating-point rounding; the measure-zero set where the SE(2) angular error wraps"
ASSUMPTIONS = [
    "dual-number semantics of + - * / sqrt cos sin is the derivative (validated per run against a central difference of the real calc_error on float64)",
    "sqrt stub: r>=0 and r*r=arg; cos/sin stub: addition formulas over base angles with cos^2+sin^2=1",
    "quaternions have unit norm",
]


def _move(P, g, e, v1, v2, mode):
    """a history before the Jacobians are read: every query is evaluated once, then the vertices are moved to new
    arbitrary poses (in-place array assignment or rebinding); the Jacobians are requested FIRST afterwards"""
    from .common import mk_pose

    e.calc_error()
    e.calc_jacobians()
    e.calc_chi2()
    for k, v in enumerate((v1, v2)):
        kind = {g.PoseR2: "R2", g.PoseR3: "R3", g.PoseSE2: "SE2", g.PoseSE3: "SE3"}[type(v.pose)]
        new = mk_pose(P, g, kind, "moved%d" % k, wrapped=True)
        if mode == "inplace":
            v.pose[:] = new.to_array()
        else:
            v.pose = new


def _case(ek, mode=None):
    def fn(P, g):
        if mode == "anyinfo":
            # an ARBITRARY symmetric information matrix (zero rows, rank deficient, indefinite): the Jacobian is the derivative
            # of the error, which does not depend on the information
            from .common import error_dim

            e, v1, v2 = mk_edge(P, g, ek, info=P.sym_matrix("om", error_dim(ek)))
        else:
            e, v1, v2 = mk_edge(P, g, ek)
        if mode == "fixedflags":
            # the reported Jacobian is the derivative of the error whether or not the vertex is marked fixed
            v1.fixed, v2.fixed = True, True
        elif mode is not None:
            _move(P, g, e, v1, v2, mode)
        jac = e.calc_jacobians()
        P.check("two_jacobians", len(jac) == 2)
        for k, v in enumerate((v1, v2)):
            dim = v.pose.COMPACT_DIMENSIONALITY

            def f(delta, v=v):
                old = v.pose
                v.pose = old + delta  # the real boxplus
                try:
                    return e.calc_error()
                finally:
                    v.pose = old

            D = P.derivative(f, dim)
            P.check_eq("J%d" % k, jac[k], D, deriv=True)

    return fn


def cases(tier):
    out = []
    for ek in EDGE_KINDS:
        out.append(Case("%s-%s" % ek, _case(ek), timeout=20, old_timeout=30, validate=2 if tier == "quick" else 6))
        for mode in ("inplace", "rebind", "fixedflags", "anyinfo"):
            out.append(Case("history-%s-%s-%s" % (mode, ek[0], ek[1]), _case(ek, mode), timeout=20, old_timeout=30, validate=1))
    return out
