"""C03 - one optimizer iteration is exactly the Gauss-Newton step."""
import itertools

from .common import COMPACT, Case
from .graphkit import dense, install_stubs, reference_system, structure_graph

PROPERTY = "C03"
EXPLANATION = (
    "The real BaseEdge.calc_chi2_gradient_hessian, _Chi2GradientHessian.update, Graph._initialize, "
    "Graph._calc_chi2_gradient_hessian and Graph.optimize(max_iter=1) are executed on graphs whose edges are BaseEdge "
    "subclasses returning FREE symbolic error vectors, Jacobians and symmetric information matrices (their correctness is "
    "C01/C02), with real pose objects, symbolic distinct vertex ids and concrete structure. z3 proves entry by entry that "
    "the assembled gradient and Hessian equal an independently written scatter-sum b = sum J^T Omega e, H = sum J_u^T "
    "Omega J_v (both triangles; fixed rows/cols replaced by zero/identity), that the linear solver is called exactly once "
    "with (H, -b), and that every free vertex ends at pose [+] dx[its own slice] through the real boxplus while fixed "
    "vertices and fixed flags behave as documented. Since a nonsingular system has a unique solution this is dx = -H^-1 b."
)
BOUNDS = {
    "quick": "exhaustive for <=2 vertices (dims 3,2) and <=2 edges of arity 1..2 in every vertex order x every fixed subset x fix_first_pose, plus curated structures: 1..3 vertices of mixed compact dimension (2,3,3,6), <=3 edges of arity 1..3 in any vertex order incl. parallel and reversed edges, several fixed subsets, fix_first_pose in {True,False}; error dimension 2",
    "thorough": "exhaustive: all ordered vertex tuples (arity 1..3) for <=2 edges over <=3 vertices, two dimension patterns, every fixed subset, both fix_first_pose values; plus seeded 4-vertex / 3..4-edge structures",
}
BOUNDS = {k: v + "; relinearized (graph already linearised at this state), two-call (flags edited between optimize() calls) any-chi2 (chi^2 a free value per graph state: the step may raise it) and prelinked (edges arrive linked to foreign vertices of the same ids) variants of the curated structures" for k, v in BOUNDS.items()}
OUTSIDE = "rounding and the numerical quality of SuperLU; graphs beyond the bound (assembly is a fold over edges, the per-edge scatter is what is verified); edges naming the same vertex twice"
ASSUMPTIONS = ["information matrices symmetric", "vertex ids pairwise distinct", "spsolve stub returns an arbitrary vector (its contract H dx = rhs is not needed for this property)", "lil_matrix stub = dense object matrix with numpy slice-assignment semantics"]


def _case(kinds, edges, fixed, ff, prelinearize=False, epoch=False, prelinked=False):
    def fn(P, g):
        np = P.np
        env = install_stubs(P, g)
        # epoch: chi^2 is a free non-negative value per graph state, so the step may RAISE chi^2 (or leave it unchanged):
        # the vertices still end at pose [+] dx
        graph, verts, eobjs, ids = structure_graph(P, g, kinds, edges, fixed, epoch_chi2=epoch, prelinked=prelinked)
        # binding by id, irrespective of list order
        for tup, e in zip(edges, eobjs):
            P.check("bound_count", len(e.vertices) == len(tup))
            for a, vi in enumerate(tup):
                P.check("bound_vertex", e.vertices[a] is verts[vi])
        eff_fixed = set(fixed) | ({0} if ff else set())
        b_ref, H_ref, offs, dims = reference_system(P, kinds, edges, eobjs, eff_fixed)
        if prelinearize:
            # the graph has been linearised before at exactly this state (as at the end of a converged run)
            graph._fixed_gradient_indices = {v.gradient_index for i, v in enumerate(verts) if i in eff_fixed}
            graph._calc_chi2_gradient_hessian()
            graph.calc_chi2()
        init = [v.pose.to_array() for v in verts]
        flags = [v.fixed for v in verts]
        res = graph.optimize(tol=1e-9, max_iter=1, fix_first_pose=ff, verbose=False)
        # flags
        for i, v in enumerate(verts):
            P.check("fixed_flag_%d" % i, v.fixed == (flags[i] or (ff and i == 0)))
        # the assembled system (state left by the iteration)
        P.check_eq("gradient", graph._gradient, b_ref)
        P.check_eq("hessian", dense(graph._hessian), H_ref)
        if P.symbolic:
            P.check("one_solve", len(env.solves) == 1)
            A, rhs, dx = env.solves[0]
            P.check_eq("solve_matrix", A, H_ref)
            P.check_eq("solve_rhs", rhs, -b_ref)
        else:
            try:
                dx = np.linalg.solve(H_ref, -b_ref)
                if not np.all(np.isfinite(dx)) or np.linalg.cond(H_ref) > 1e8:
                    dx = None
            except np.linalg.LinAlgError:
                dx = None
        if dx is not None:
            for i, v in enumerate(verts):
                if i in eff_fixed:
                    P.check_eq("fixed_pose_%d" % i, v.pose.to_array(), init[i])
                else:
                    p0 = type(v.pose)(*_ctor_args(kinds[i], init[i]))
                    P.check_eq("updated_pose_%d" % i, v.pose.to_array(), (p0 + dx[offs[i] : offs[i] + dims[i]]).to_array())
        P.check("iterations", res.num_iterations == 1)

    return fn


def _two_calls(kinds, edges, fixed1, ff1, change, ff2):
    """a second optimize(max_iter=1) on the same Graph object after the fixed flags were edited: its step must be the
    Gauss-Newton step of the problem as it is now (nothing left over from the first linearisation)"""

    def fn(P, g):
        np = P.np
        env = install_stubs(P, g)
        graph, verts, eobjs, ids = structure_graph(P, g, kinds, edges, fixed1)
        graph.optimize(tol=1e-9, max_iter=1, fix_first_pose=ff1, verbose=False)
        for i, val in change.items():
            verts[i].fixed = val
        eff = {i for i, v in enumerate(verts) if v.fixed} | ({0} if ff2 else set())
        b_ref, H_ref, offs, dims = reference_system(P, kinds, edges, eobjs, eff)
        init = [v.pose.to_array() for v in verts]
        before = [v.pose for v in verts]  # optimize() rebinds vertex.pose: these objects keep the pre-call poses
        n0 = len(env.solves)
        graph.optimize(tol=1e-9, max_iter=1, fix_first_pose=ff2, verbose=False)
        P.check_eq("gradient_second_call", graph._gradient, b_ref)
        P.check_eq("hessian_second_call", dense(graph._hessian), H_ref)
        if P.symbolic:
            P.check("one_more_solve", len(env.solves) == n0 + 1)
            A, rhs, dx = env.solves[-1]
            P.check_eq("solve_matrix_second_call", A, H_ref)
            P.check_eq("solve_rhs_second_call", rhs, -b_ref)
            for i, v in enumerate(verts):
                if i in eff:
                    P.check_eq("fixed_pose_%d" % i, v.pose.to_array(), init[i])
                else:
                    P.check_eq("updated_pose_%d" % i, v.pose.to_array(), (before[i] + dx[offs[i] : offs[i] + dims[i]]).to_array())

    return fn


TWO_CALLS = [
    (["SE2", "SE2", "R2"], [(0, 1), (1, 2)], {2}, False, {}, True),  # first pose free in call 1, fixed in call 2
    (["SE2", "R2", "SE2"], [(0, 1), (2, 1), (0, 2)], set(), True, {2: True}, False),
    (["R2", "SE2", "R3"], [(0, 1), (1, 2)], {0, 2}, False, {2: False}, False),  # a vertex released between the calls
    (["R3", "R3"], [(0, 1), (1, 0)], set(), True, {1: True, 0: False}, False),
]


def _ctor_args(kind, arr):
    if kind in ("R2", "R3"):
        return (arr,)
    if kind == "SE2":
        return (arr[:2], arr[2])
    return (arr[:3], arr[3:])


QUICK = [
    # (kinds, edges, fixed, fix_first_pose)
    (["SE2", "SE2"], [(0, 1)], set(), True),
    (["SE2", "R2"], [(1, 0)], set(), True),
    (["R2", "SE2", "SE3"], [(0, 1), (2, 1)], {1}, False),
    (["SE3", "R3"], [(0, 1), (0, 1)], set(), True),
    (["SE3", "R3"], [(0, 1), (1, 0)], set(), True),
    (["R2", "SE2", "R3"], [(2, 0, 1)], {0}, False),
    (["R2", "SE2", "R3"], [(1,), (0, 2)], set(), True),
    (["SE2", "R2", "SE2"], [(0, 1), (2, 1), (2, 0)], {2}, False),
    (["R3", "SE3", "R2"], [(2, 1, 0), (1, 2)], {0, 2}, False),
    (["SE2", "SE2", "SE2"], [(0, 1), (1, 2)], {0, 1, 2}, False),
    (["SE2", "R2", "R3"], [(0, 1)], {0, 2}, False),
    (["R2"], [(0,)], set(), False),
    (["R2"], [(0,), (0,)], set(), True),
    (["SE3", "SE2"], [(1, 0)], set(), False),
    (["R3", "R2", "SE2"], [(0, 1, 2), (2, 1, 0)], {1}, True),
    (["R2", "SE2", "R3"], [(0, 1, 2), (1, 0)], {2}, False),
    (["SE2", "R3", "R2"], [(2, 0, 1), (0, 2), (2, 0)], set(), False),
]


def _exhaustive(patterns=(["R2", "SE2", "SE3"], ["SE3", "R3", "R2"]), nvs=(1, 2, 3)):
    out = []
    for pattern in patterns:
        for nv in nvs:
            kinds = pattern[:nv]
            tuples = []
            for ar in (1, 2, 3):
                tuples += list(itertools.permutations(range(nv), ar))
            structs = [(t,) for t in tuples] + list(itertools.combinations_with_replacement(tuples, 2))
            for edges in structs:
                for r in range(nv + 1):
                    for fixed in itertools.combinations(range(nv), r):
                        for ff in (True, False):
                            if ff and 0 in fixed:
                                continue
                            out.append((kinds, list(edges), set(fixed), ff))
    return out


def _name(s):
    kinds, edges, fixed, ff = s
    return "%s|%s|fix%s|ff%d" % (".".join(kinds), ";".join("-".join(map(str, t)) for t in edges), "".join(map(str, sorted(fixed))) or "_", int(ff))


def cases(tier):
    structs = list(QUICK)
    seen0 = {_name(s) for s in structs}
    for s in _exhaustive(patterns=(["SE2", "R2"],), nvs=(1, 2)):
        if _name(s) not in seen0:
            seen0.add(_name(s))
            structs.append(s)
    if tier == "thorough":
        import random

        rnd = random.Random(12345)
        seen = {_name(s) for s in structs}
        for s in _exhaustive():
            if _name(s) not in seen:
                seen.add(_name(s))
                structs.append(s)
        pool = ["R2", "SE2", "R3", "SE3"]
        for _ in range(40):
            kinds = [rnd.choice(pool) for _ in range(4)]
            ne = rnd.choice([3, 4])
            edges = [tuple(rnd.sample(range(4), rnd.choice([1, 2, 2, 3]))) for _ in range(ne)]
            fixed = set(rnd.sample(range(4), rnd.choice([0, 1, 2])))
            s = (kinds, edges, fixed, rnd.choice([True, False]))
            if _name(s) not in seen:
                seen.add(_name(s))
                structs.append(s)
    out = [Case(_name(s), _case(*s), timeout=10, old_timeout=20, validate=1 if tier == "quick" or i >= 40 else 2, feas_timeout_ms=1000) for i, s in enumerate(structs)]
    out += [Case("twocalls%d" % i, _two_calls(*t), timeout=10, old_timeout=20, validate=1, feas_timeout_ms=1000) for i, t in enumerate(TWO_CALLS)]
    out += [Case("relinearized|" + _name(s), _case(*s, prelinearize=True), timeout=10, old_timeout=20, validate=1, feas_timeout_ms=1000) for s in QUICK]
    out += [Case("prelinked|" + _name(s), _case(*s, prelinked=True), timeout=10, old_timeout=20, validate=1, feas_timeout_ms=1000) for s in QUICK[1 :: (3 if tier == "quick" else 1)]]
    out += [Case("anychi2|" + _name(s), _case(*s, epoch=True), timeout=10, old_timeout=20, validate=1, feas_timeout_ms=1000) for s in QUICK[:: (2 if tier == "quick" else 1)]]
    return out
