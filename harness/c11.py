"""C11 - manifold invariants: SE(2) angle range / congruence, SE(3) unit quaternions, normalize()."""
from .common import COMPACT, Case, mk_pose

PROPERTY = "C11"
EXPLANATION = (
    "Real-arithmetic model: every SE(2) pose produced by the real constructor, +, -, inverse, copy and boxplus has its "
    "stored angle in [-pi, pi] and differing from the exact angle by an integer multiple of 2*pi (the wrap is executed "
    "through its a - m*k contract); every SE(3) pose produced by +, -, inverse, copy, boxplus (both branches of the norm "
    "test) from unit-quaternion operands has |q|^2 = 1 (this is the inductive step for chains of any length and for any "
    "number of optimiser iterations), and for ARBITRARY quaternions |q_out|^2 = |q_a|^2 |q_b|^2 (no operation amplifies a "
    "deviation from unit norm, so rounding deviations accumulate additively); normalize() (both sign branches, arbitrary non-zero quaternion) yields unit norm, "
    "w >= 0 and the same rotation matrix. Floating-point model (fpwrap cases): util.neg_pi_to_pi is executed on IEEE "
    "binary64 terms (z3 FloatingPoint, C fmod modelled exactly through fp.rem) and the result is proved to lie in the "
    "closed interval [-pi, pi] for every finite |a| <= 1e6."
)
BOUNDS = "ops {construct,+,-,inverse,copy,boxplus,+= (also with one object on both sides)} x {SE2,SE3}; all operands symbolic; one inductive step (unit in => unit out); the optimizer's own update with an arbitrary solver output for 1 and 3 iterations (chi^2 free per state)"
OUTSIDE = "size of accumulated rounding over long chains (64-bit nonlinear FP chains are not bit-blastable here)"
ASSUMPTIONS = ["operands have unit quaternions", "a % m = a - m*k, k integer, 0 <= result < m", "sqrt contract"]


def _se2(op):
    def fn(P, g):
        np = P.np
        pi = np.pi
        tha = P.angle("a_th", big=True)
        thb = P.angle("b_th", big=True)
        a = g.PoseSE2(P.reals("a", 2), tha)
        b = g.PoseSE2(P.reals("b", 2), thb)
        if op == "construct":
            res, exact = a, tha
        elif op == "add":
            res, exact = a + b, tha + thb
        elif op == "sub":
            res, exact = a - b, tha - thb
        elif op == "inverse":
            res, exact = a.inverse, -tha
        elif op == "copy":
            res, exact = a.copy(), tha
        elif op == "boxplus":
            d = P.vector("d", 3)
            res, exact = a + d, tha + d[2]
        elif op == "iadd":
            res = a.copy()
            res += b
            exact = tha + thb
        elif op == "iadd-self":  # the augmented assignment with ONE object on both sides (aliasing)
            res = a.copy()
            res += res
            exact = tha + tha
        elif op == "iadd-boxplus":
            d = P.vector("d", 3)
            res = a.copy()
            res += d
            exact = tha + d[2]
        P.check("is_se2", type(res) is g.PoseSE2)
        r = res[2]
        P.check("range", P.both(r >= -pi, r <= pi))
        P.check("congruent", P.is_integer((r - exact) / (2 * pi)))
        P.check_eq("orientation_property", res.orientation, r)

    return fn


def _se3(op):
    def fn(P, g):
        np = P.np
        a = mk_pose(P, g, "SE3", "a")
        b = mk_pose(P, g, "SE3", "b")
        if op == "add":
            res = a + b
        elif op == "sub":
            res = a - b
        elif op == "inverse":
            res = a.inverse
        elif op == "copy":
            res = a.copy()
        elif op == "boxplus":
            d = P.vector("d", 6)
            res = a + d
        elif op == "iadd":
            res = a.copy()
            res += b
        elif op == "iadd-self":  # the augmented assignment with ONE object on both sides (aliasing)
            fresh = a.copy() + a.copy()
            res = a.copy()
            res += res
            for i in range(7):
                P.check_eq("equals_fresh_a_plus_a[%d]" % i, res[i], fresh[i])
        elif op == "iadd-boxplus":
            d = P.vector("d", 6)
            res = a.copy()
            res += d
        P.check("is_se3", type(res) is g.PoseSE3)
        q = res[3:]
        P.check_eq("unit", q[0] * q[0] + q[1] * q[1] + q[2] * q[2] + q[3] * q[3], 1.0)
        P.check_eq("orientation_property", res.orientation, q)

    return fn


def _se3_norm_product(op):
    """|q_out|^2 = |q_a|^2 |q_b|^2 for ARBITRARY (not necessarily unit) quaternions: a deviation from unit norm is never
    amplified by an operation, so rounding deviations accumulate additively over chains of any length"""

    def fn(P, g):
        qa, qb = P.reals("qa", 4), P.reals("qb", 4)
        a = g.PoseSE3(P.reals("ta", 3), qa)
        b = g.PoseSE3(P.reals("tb", 3), qb)
        na = qa[0] * qa[0] + qa[1] * qa[1] + qa[2] * qa[2] + qa[3] * qa[3]
        nb = qb[0] * qb[0] + qb[1] * qb[1] + qb[2] * qb[2] + qb[3] * qb[3]
        if op == "add":
            res, expect = a + b, na * nb
        elif op == "sub":
            res, expect = a - b, na * nb
        elif op == "inverse":
            res, expect = a.inverse, na
        elif op == "copy":
            res, expect = a.copy(), na
        elif op == "iadd":
            res = a.copy()
            res += b
            expect = na * nb
        elif op == "iadd-self":
            res = a.copy()
            res += res
            expect = na * na
        elif op == "boxplus":
            d = P.vector("d", 6, lo=-0.5, hi=0.5)  # |d_v|^2 <= 0.75: the sqrt branch of the norm test
            res, expect = a + d, na
        q = res[3:]
        P.check_eq("norm_is_multiplicative", q[0] * q[0] + q[1] * q[1] + q[2] * q[2] + q[3] * q[3], expect, tol=1e-9)

    return fn


def _optimizer_update(kind, max_iter=1):
    """Graph.optimize applies an ARBITRARY solver output dx to SE(3)/SE(2) vertices: unit quaternion / angle range after
    the update (whatever the size of the increment), i.e. the inductive step for 'after any number of iterations'"""

    def fn(P, g):
        from .graphkit import install_stubs, structure_graph

        env = install_stubs(P, g)
        kinds = [kind, kind, kind] if max_iter == 1 else [kind, kind]
        es = [(0, 1), (1, 2), (2, 0)] if max_iter == 1 else [(0, 1), (1, 0)]
        # chi^2 is a free value per graph state (it may rise or fall between iterations: every control-flow outcome)
        graph, verts, eobjs, ids = structure_graph(P, g, kinds, es, {0}, symbolic_ids=False, m=3, epoch_chi2=True)
        import warnings

        with warnings.catch_warnings():
            warnings.simplefilter("ignore")
            graph.optimize(tol=0.0, max_iter=max_iter, fix_first_pose=False, verbose=False)
        for i, v in enumerate(verts):
            P.check("type_kept_%d" % i, type(v.pose).__name__ == "Pose" + kind)
            if kind == "SE3":
                q = v.pose[3:]
                P.check_eq("unit_after_update_%d" % i, q[0] * q[0] + q[1] * q[1] + q[2] * q[2] + q[3] * q[3], 1.0, tol=1e-9)
            else:
                P.check("range_after_update_%d" % i, P.both(v.pose[2] >= -P.np.pi, v.pose[2] <= P.np.pi))

    return fn


def _rot(x, y, z, w):
    return [
        [w * w + x * x - y * y - z * z, 2 * (x * y - z * w), 2 * (x * z + y * w)],
        [2 * (x * y + z * w), w * w - x * x + y * y - z * z, 2 * (y * z - x * w)],
        [2 * (x * z - y * w), 2 * (y * z + x * w), w * w - x * x - y * y + z * z],
    ]


def _normalize(P, g):
    np = P.np
    q = P.reals("q", 4)
    n2 = q[0] * q[0] + q[1] * q[1] + q[2] * q[2] + q[3] * q[3]
    P.assume(n2 > 1e-6)
    t = P.reals("t", 3)
    p = g.PoseSE3(t, q)
    before = _rot(*q)
    _ = (p.inverse, p + p, p.copy(), p.to_matrix())  # the object is used before it is normalised (nothing may be cached)
    p.normalize()
    r = p[3:]
    inv = p.inverse
    P.check_eq("inverse_after_normalize_unit", inv[3] * inv[3] + inv[4] * inv[4] + inv[5] * inv[5] + inv[6] * inv[6], 1.0)
    fresh = g.PoseSE3([p[0], p[1], p[2]], [p[3], p[4], p[5], p[6]])
    P.check_eq("inverse_after_normalize_is_that_of_a_fresh_pose", inv.to_array(), fresh.inverse.to_array())
    P.check_eq("compose_after_normalize_is_that_of_a_fresh_pose", (p + p).to_array(), (fresh + fresh).to_array())
    P.check_eq("unit", r[0] * r[0] + r[1] * r[1] + r[2] * r[2] + r[3] * r[3], 1.0)
    P.check("w_nonneg", r[3] >= 0)
    after = _rot(*r)
    # same rotation: R(q/|q|) = R(q)/|q|^2
    for i in range(3):
        for j in range(3):
            P.check_eq("rot_%d%d" % (i, j), after[i][j] * n2, before[i][j])
    P.check_eq("translation_untouched", p[:3], np.array(t))


def _fpwrap(via):
    """IEEE binary64 model of the angle wrap"""

    def fn(P, g):
        import math

        with P.fp_mode(g):
            a = P.fp("a", lo=-1e6, hi=1e6)
            if via == "function":
                r = g.util.neg_pi_to_pi(a)
            elif via == "constructor":
                r = g.PoseSE2([P.fp("x", lo=-1e3, hi=1e3), P.fp("y", lo=-1e3, hi=1e3)], a)[2]
            else:
                p = g.PoseSE2([P.fp("x", lo=-1e3, hi=1e3), P.fp("y", lo=-1e3, hi=1e3)], a)
                r = p.copy()[2]
            P.check("fp_range_closed", P.both(r >= -math.pi, r <= math.pi))

    return fn


def cases(tier):
    v = 2 if tier == "quick" else 6
    out = [Case("fpwrap-" + via, _fpwrap(via), timeout=120, old_timeout=120, validate=3, shadow=False) for via in ("function", "constructor", "copy")]
    for op in ["construct", "add", "sub", "inverse", "copy", "boxplus", "iadd", "iadd-self", "iadd-boxplus"]:
        out.append(Case("se2-" + op, _se2(op), timeout=20, validate=v))
    for op in ["add", "sub", "inverse", "copy", "boxplus", "iadd", "iadd-self", "iadd-boxplus"]:
        out.append(Case("se3-" + op, _se3(op), timeout=20, old_timeout=40, validate=v))
    for op in ["add", "sub", "inverse", "copy", "boxplus", "iadd", "iadd-self"]:
        out.append(Case("se3-normproduct-" + op, _se3_norm_product(op), timeout=20, old_timeout=40, validate=v))
    for kind in ("SE2", "SE3"):
        for mi in (1, 3):
            out.append(Case("optimizer-update-%s-it%d" % (kind, mi), _optimizer_update(kind, mi), timeout=20, old_timeout=40, validate=1, val_tol=1e-6, shadow=False))
    out.append(Case("se3-normalize", _normalize, timeout=30, old_timeout=60, validate=v))
    return out
