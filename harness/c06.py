"""C06 - fixed vertices never move and free vertices solve the reduced problem."""
from .common import COMPACT, Case
from .graphkit import contract_solver, dense, install_stubs, structure_graph

PROPERTY = "C06"
EXPLANATION = (
    "The real Graph.optimize is executed for max_iter 1..3 on graphs with free-symbol harness edges (arbitrary error, "
    "Jacobians, symmetric information, and a free chi^2 >= 0 per graph state so that every outcome of the convergence test "
    "is explored: converged, iteration limit, chi^2 increasing) with a solver stub that returns a vector satisfying H dx = rhs "
    "when H has no all-zero row and an UNCONSTRAINED vector otherwise (the NaN/garbage of a singular solve). On every path z3 "
    "proves: every vertex with fixed=True ends with exactly its initial pose; fix_first_pose=True sets exactly "
    "vertices[0].fixed and False changes no flag; in every linear system handed to the solver each fixed vertex has an "
    "identity diagonal block, zero off-diagonal blocks and a zero right-hand side, and the free-free block / free right-hand "
    "side equal an independently assembled REDUCED problem that never touches the fixed vertices; and no row of a fixed "
    "vertex is all-zero (so fixing vertices - isolated ones, landmarks, all of them - never makes the system singular)."
)
BOUNDS = {"quick": "14 structures (none/one/several/all fixed, fixed landmark, fixed vertex without edges, under-constrained free vertex) x max_iter 1..3 (1 for SE(3)) x fix_first_pose", "thorough": "the same structures and all fixed subsets of 5 base graphs x max_iter 1..5"}
BOUNDS = {k: v + "; 5 two-call histories (flags edited between consecutive optimize() calls on one Graph object); fixed SE(3) vertices with stored quaternions of arbitrary length and sign; all vertices of a type sharing one pose object; real landmark edges with the fixed sensor pose edited in place between two optimize() calls" for k, v in BOUNDS.items()}
OUTSIDE = "rounding; IEEE semantics of pose [+] 0 is no longer relied upon (fixed vertices are skipped by the update loop); iteration counts beyond the bound (each iteration is verified from an arbitrary symbolic state)"
ASSUMPTIONS = ["solver contract as described", "information symmetric", "ids distinct", "chi^2 >= 0"]


def reduced_system(P, kinds, edges, eobjs, fixed):
    """normal equations of the problem in which fixed poses are constants: only free vertices have unknowns"""
    import numpy

    free = [i for i in range(len(kinds)) if i not in fixed]
    dims = {i: COMPACT[kinds[i]] for i in free}
    offs = {}
    n = 0
    for i in free:
        offs[i] = n
        n += dims[i]
    dt = object if P.symbolic else float
    b = numpy.zeros(n, dtype=dt)
    H = numpy.zeros((n, n), dtype=dt)
    for tup, e in zip(edges, eobjs):
        om, err, jacs = e.information, e._err, e._jacs
        w = P.np.dot(om, err)
        for a, va in enumerate(tup):
            if va in fixed:
                continue
            Ja = jacs[a]
            ga = P.np.dot(P.np.transpose(Ja), w)
            for c in range(dims[va]):
                b[offs[va] + c] = b[offs[va] + c] + ga[c]
            for bb, vb in enumerate(tup):
                if vb in fixed:
                    continue
                blk = P.np.dot(P.np.transpose(Ja), P.np.dot(om, jacs[bb]))
                for r in range(dims[va]):
                    for c in range(dims[vb]):
                        H[offs[va] + r, offs[vb] + c] = H[offs[va] + r, offs[vb] + c] + blk[r][c]
    return b, H, free, offs, dims


def check_systems(P, systems, kinds, edges, eobjs, eff):
    """every linear system handed to the solver (symbolic mode), or the last assembled one (concrete mode)"""
    np = P.np
    all_dims = [COMPACT[k] for k in kinds]
    all_offs = [sum(all_dims[:i]) for i in range(len(kinds))]
    b_red, H_red, free, offs, dims = reduced_system(P, kinds, edges, eobjs, eff)
    for A, rhs in systems:
        for i in eff:
            lo, d = all_offs[i], all_dims[i]
            P.check_eq("fixed_diag_identity", A[lo : lo + d, lo : lo + d], np.eye(d))
            P.check_eq("fixed_rhs_zero", rhs[lo : lo + d], np.zeros(d))
            for j in range(len(kinds)):
                if j != i:
                    lj, dj = all_offs[j], all_dims[j]
                    P.check_eq("fixed_offdiag_zero_row", A[lo : lo + d, lj : lj + dj], np.zeros((d, dj)))
                    P.check_eq("fixed_offdiag_zero_col", A[lj : lj + dj, lo : lo + d], np.zeros((dj, d)))
        for i in free:
            li, di = all_offs[i], all_dims[i]
            P.check_eq("reduced_rhs", rhs[li : li + di], -b_red[offs[i] : offs[i] + di])
            for j in free:
                lj, dj = all_offs[j], all_dims[j]
                P.check_eq("reduced_block", A[li : li + di, lj : lj + dj], H_red[offs[i] : offs[i] + di, offs[j] : offs[j] + dj])


def _history(kinds, edges, fixed1, ff1, change, ff2, it2):
    """two consecutive optimize() calls on the same Graph object with the fixed flags edited in between: the second call
    must honour the flags as they are when it starts (no stale state from the first call)"""

    def fn(P, g):
        from .common import mk_pose

        np = P.np
        env = install_stubs(P, g, solver=contract_solver(P) if P.symbolic else None)
        graph, verts, eobjs, ids = structure_graph(P, g, kinds, edges, fixed1, symbolic_ids=False, epoch_chi2=True)
        import warnings

        with warnings.catch_warnings():
            warnings.simplefilter("ignore")
            graph.optimize(tol=0.0, max_iter=1, fix_first_pose=ff1, verbose=False)
        for i, val in change.items():
            verts[i].fixed = val
            if val:
                verts[i].pose = mk_pose(P, g, kinds[i], "pin%d" % i, wrapped=True)  # the user pins it somewhere else
        flags = [v.fixed for v in verts]
        eff = {i for i, f in enumerate(flags) if f} | ({0} if ff2 else set())
        init = [v.pose.to_array() for v in verts]
        n_before = len(env.solves)
        with warnings.catch_warnings():
            warnings.simplefilter("ignore")
            res = graph.optimize(tol=P.real("tol", lo=0.0, hi=1.0), max_iter=it2, fix_first_pose=ff2, verbose=False)
        for i, v in enumerate(verts):
            P.check("flag_%d" % i, v.fixed == (flags[i] or (ff2 and i == 0)))
            if i in eff:
                P.check_eq("fixed_pose_unchanged_%d" % i, v.pose.to_array(), init[i])
        systems = [(A, rhs) for A, rhs, _dx in env.solves[n_before:]] if P.symbolic else [(dense(graph._hessian), -np.array(graph._gradient))]
        check_systems(P, systems, kinds, edges, eobjs, eff)
        P.check("ran", res.num_iterations >= 1)

    return fn


HISTORIES = [
    # kinds, edges, fixed before call 1, ff1, {vertex: new flag} between the calls, ff2
    (["SE2", "SE2", "R2"], [(0, 1), (1, 2)], set(), True, {2: True}, False),
    (["SE2", "SE2", "R2"], [(0, 1), (1, 2)], set(), True, {0: False, 1: True}, False),
    (["R2", "SE2", "R2"], [(0, 1), (1, 2), (0, 2)], {1}, False, {1: False, 2: True}, True),
    (["R3", "R3"], [(0, 1)], set(), True, {0: False}, False),
    (["SE2", "R2", "R2"], [(0, 1), (0, 2)], {1, 2}, True, {1: False}, False),
]


def _case(kinds, edges, fixed, ff, max_iter, raw_quat=(), shared_pose=False):
    def fn(P, g):
        np = P.np
        env = install_stubs(P, g, solver=contract_solver(P) if P.symbolic else None)
        graph, verts, eobjs, ids = structure_graph(P, g, kinds, edges, fixed, symbolic_ids=False, epoch_chi2=True, raw_quat=raw_quat, shared_pose=shared_pose)
        eff = set(fixed) | ({0} if ff else set())
        init = [v.pose.to_array() for v in verts]
        flags = [v.fixed for v in verts]
        tol = P.real("tol", lo=0.0, hi=1.0)
        import warnings

        with warnings.catch_warnings():
            warnings.simplefilter("ignore")
            res = graph.optimize(tol=tol, max_iter=max_iter, fix_first_pose=ff, verbose=False)
        for i, v in enumerate(verts):
            P.check("flag_%d" % i, v.fixed == (flags[i] or (ff and i == 0)))
            if i in eff:
                P.check_eq("fixed_pose_unchanged_%d" % i, v.pose.to_array(), init[i])
        systems = [(A, rhs) for A, rhs, _dx in env.solves] if P.symbolic else [(dense(graph._hessian), -np.array(graph._gradient))]
        check_systems(P, systems, kinds, edges, eobjs, eff)
        P.check("ran", res.num_iterations >= 1 and res.num_iterations <= max_iter)

    return fn


def _real_landmark_history(kind):
    """REAL EdgeLandmark edges, sensor pose fixed, landmark free: everything is evaluated once (and optimized once), the fixed
    pose is then edited IN PLACE (it stays fixed) and the graph optimized again: the landmark solves the reduced problem of
    the fixed pose as it is NOW (gradient of an independent chi^2 model w.r.t. the landmark vanishes; one step suffices
    because the error is affine in the landmark)"""

    def fn(P, g):
        from .c09 import ref_matrix
        from .common import POINT_OF, mk_pose

        np = P.np
        pt = POINT_OF[kind]
        n = COMPACT[pt]
        env = install_stubs(P, g, solver=contract_solver(P) if P.symbolic else None)
        pose = mk_pose(P, g, kind, "sensor", wrapped=True)
        lm = mk_pose(P, g, pt, "lm")
        vs = [g.Vertex(0, pose, fixed=True), g.Vertex(1, lm)]
        es = []
        for k in range(2):
            es.append(g.EdgeLandmark([0, 1], P.sym_matrix("om%d" % k, n, psd=True), mk_pose(P, g, pt, "z%d" % k), mk_pose(P, g, kind, "off%d" % k, wrapped=True), offset_id=k))
        graph = g.Graph(es, vs)
        import warnings

        with warnings.catch_warnings():
            warnings.simplefilter("ignore")
            graph.calc_chi2()
            graph.optimize(tol=0.0, max_iter=1, fix_first_pose=False, verbose=False)
            new = mk_pose(P, g, kind, "sensor_new", wrapped=True)
            vs[0].pose[:] = new.to_array()
            vs[1].pose = mk_pose(P, g, pt, "lm_restart")
            # what the graph's edges report now is what fresh edge objects on the same vertices report
            for k, e in enumerate(es):
                fresh = g.EdgeLandmark([0, 1], e.information, e.estimate, e.offset, offset_id=k, vertices=vs)
                P.check_eq("error_at_current_fixed_pose_%d" % k, e.calc_error(), fresh.calc_error())
                for a, (J1, J2) in enumerate(zip(e.calc_jacobians(), fresh.calc_jacobians())):
                    P.check_eq("jacobian_at_current_fixed_pose_%d_%d" % (k, a), J1, J2)
            graph.optimize(tol=0.0, max_iter=1, fix_first_pose=False, verbose=False)
        P.check_eq("fixed_pose_is_the_edited_one", vs[0].pose.to_array(), new.to_array())
        if kind == "SE3":
            return  # the stationarity identity below (degree 6 over two 3-spheres) is not decided by either z3 within 10 minutes
        l = vs[1].pose.to_array()
        grad = [0.0] * n
        for e in es:
            M = np.dot(ref_matrix(P, g, kind, new), ref_matrix(P, g, kind, e.offset))
            R = [[M[i][j] for j in range(n)] for i in range(n)]
            t = [M[i][n] for i in range(n)]
            err = [sum(R[j][i] * (l[j] - t[j]) for j in range(n)) - e.estimate[i] for i in range(n)]
            oe = [sum(e.information[i][j] * err[j] for j in range(n)) for i in range(n)]
            for i in range(n):
                grad[i] = grad[i] + 2.0 * sum(R[i][j] * oe[j] for j in range(n))
        P.check_eq("landmark_solves_reduced_problem_of_current_fixed_pose", grad, [0.0] * n, tol=1e-6)

    return fn


STRUCTS = [
    # kinds, edges, fixed, fix_first_pose
    (["SE2", "SE2", "R2"], [(0, 1), (1, 2)], set(), True),
    (["SE2", "SE2", "R2"], [(0, 1), (1, 2)], set(), False),  # nothing fixed: gauge freedom
    (["R2", "R2", "R2"], [(0, 1)], set(), True),  # vertex 2 free without edges: singular solve
    (["R2", "R2", "R2"], [(0, 1)], {2}, True),  # fixed vertex without edges
    (["R2", "R2", "R2"], [(0, 1)], {2}, False),
    (["SE2", "R2", "R2"], [(0, 1), (0, 2)], {1}, True),  # fixed landmark
    (["SE2", "R2"], [(0, 1)], {0, 1}, False),  # all fixed
    (["R3", "SE2", "R2"], [(1, 0), (2, 1), (0, 2)], {0, 2}, False),
    (["SE2", "SE2", "SE2"], [(2, 1), (1, 0)], {2}, False),
    (["R2", "SE2"], [(1,), (0, 1)], {1}, False),
    (["R3", "R3"], [(0, 1), (0, 1)], {1}, True),
    (["SE2", "R2", "SE2"], [(0, 1, 2)], {1}, False),
    (["R2", "SE2", "SE2"], [(1, 0), (1, 2)], set(), True),  # fix_first_pose fixes the FIRST LISTED vertex, here a landmark
]
SE3_STRUCTS = [
    (["SE3", "R3"], [(0, 1)], {1}, False),
    (["SE3", "SE3"], [(1, 0)], set(), True),
]


def _name(s, mi):
    kinds, edges, fixed, ff = s
    return "%s_%s_fix%s_ff%d_it%d" % (".".join(kinds), "+".join("-".join(map(str, t)) for t in edges), "".join(map(str, sorted(fixed))) or "none", int(ff), mi)


def cases(tier):
    out = []
    its = (1, 2, 3) if tier == "quick" else (1, 2, 3, 4, 5)
    structs = list(STRUCTS)
    if tier == "thorough":
        import itertools

        seen = {_name(s, 0) for s in structs}
        for kinds, edges in [(["SE2", "SE2", "R2"], [(0, 1), (1, 2)]), (["R2", "R2", "R2"], [(0, 1)]), (["R3", "SE2", "R2"], [(1, 0), (2, 1), (0, 2)]), (["SE2", "R2", "SE2"], [(0, 1, 2)]), (["R2", "SE2", "R3", "R2"], [(0, 1), (2, 1), (3, 1)])]:
            for r in range(len(kinds) + 1):
                for fixed in itertools.combinations(range(len(kinds)), r):
                    for ff in (True, False):
                        s = (kinds, edges, set(fixed), ff)
                        if _name(s, 0) not in seen:
                            seen.add(_name(s, 0))
                            structs.append(s)
    for s in structs:
        for mi in its:
            out.append(Case(_name(s, mi), _case(*s, mi), timeout=10, old_timeout=20, validate=1, feas_timeout_ms=1500))
    for hi, h in enumerate(HISTORIES):
        for it2 in (1, 2) if tier == "quick" else (1, 2, 3):
            out.append(Case("history%d_it%d" % (hi, it2), _history(*h, it2), timeout=10, old_timeout=20, validate=1, feas_timeout_ms=1500))
    for s in SE3_STRUCTS:
        for mi in (1,) if tier == "quick" else (1, 2):
            out.append(Case(_name(s, mi), _case(*s, mi), timeout=10, old_timeout=20, validate=1, feas_timeout_ms=1500))
    for kind in ("SE2", "SE3"):
        out.append(Case("real-landmark-fixed-pose-edited-" + kind, _real_landmark_history(kind), timeout=30, old_timeout=60, validate=2, feas_timeout_ms=1500, cert_first=True))
    # every vertex of a pose type is given the SAME pose object (Vertex(i, start) in a loop): the fixed ones still stay put
    for s in [(["SE2", "SE2", "R2"], [(0, 1), (1, 2)], set(), True), (["R2", "R2", "R2"], [(0, 1), (1, 2)], {1}, False), (["SE3", "SE3"], [(1, 0)], {0}, False)]:
        for mi in (1, 2) if "SE3" not in s[0] else (1,):
            out.append(Case("sharedpose_" + _name(s, mi), _case(*s, mi, shared_pose=True), timeout=10, old_timeout=20, validate=1, feas_timeout_ms=1500))
    # fixed SE(3) vertices whose stored quaternion is NOT of unit length (and may have w < 0): still bit-for-bit unchanged
    for s in [(["SE3", "R3"], [(0, 1)], set(), True), (["R3", "SE3"], [(1, 0)], {1}, False)]:
        out.append(Case("rawquat_" + _name(s, 1), _case(*s, 1, raw_quat=(0, 1)), timeout=10, old_timeout=20, validate=1, feas_timeout_ms=1500))
    return out
