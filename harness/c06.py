"""C06 - fixed vertices never move and free vertices solve the reduced problem."""
from .common import COMPACT, Case
from .graphkit import contract_solver, dense, install_stubs, structure_graph

PROPERTY = "C06"
EXPLANATION = (
    "The real Graph.optimize is executed for max_iter 1..3 on graphs with free-symbol harness edges (arbitrary error, "
    "Jacobians, symmetric information, and a free chi^2 >= 0 per graph state so that every outcome of the convergence test "
    "is explored: converged, iteration limit, chi^2 increasing) with a solver stub that returns a vector satisfying H dx = rhs "
    "when H has no all-zero row and an UNCONSTRAINED vector otherwise (the NaN/garbage of a singular solve). On every path z3 "
    "proves: every vertex with fixed=True ends with exactly its initial pose; fix_first_pose=True sets exactly "
    "vertices[0].fixed and False changes no flag; in every linear system handed to the solver each fixed vertex has an "
    "identity diagonal block, zero off-diagonal blocks and a zero right-hand side, and the free-free block / free right-hand "
    "side equal an independently assembled REDUCED problem that never touches the fixed vertices; and no row of a fixed "
    "vertex is all-zero (so fixing vertices - isolated ones, landmarks, all of them - never makes the system singular)."
)
BOUNDS = {"quick": "14 structures (none/one/several/all fixed, fixed landmark, fixed vertex without edges, under-constrained free vertex) x max_iter 1..3 (1 for SE(3)) x fix_first_pose", "thorough": "the same structures and all fixed subsets of 5 base graphs x max_iter 1..5"}
BOUNDS = {k: v + "; 5 two-call histories (flags edited between consecutive optimize() calls on one Graph object); fixed SE(3) vertices with stored quaternions of arbitrary length and sign" for k, v in BOUNDS.items()}
OUTSIDE = "rounding; IEEE semantics of pose [+] 0 is no longer relied upon (fixed vertices are skipped by the update loop); iteration counts beyond the bound (each iteration is verified from an arbitrary symbolic state)"
ASSUMPTIONS = ["solver contract as described", "information symmetric", "ids distinct", "chi^2 >= 0"]


def reduced_system(P, kinds, edges, eobjs, fixed):
    """normal equations of the problem in which fixed poses are constants: only free vertices have unknowns"""
    import numpy

    free = [i for i in range(len(kinds)) if i not in fixed]
    dims = {i: COMPACT[kinds[i]] for i in free}
    offs = {}
    n = 0
    for i in free:
        offs[i] = n
        n += dims[i]
    dt = object if P.symbolic else float
    b = numpy.zeros(n, dtype=dt)
    H = numpy.zeros((n, n), dtype=dt)
    for tup, e in zip(edges, eobjs):
        om, err, jacs = e.information, e._err, e._jacs
        w = P.np.dot(om, err)
        for a, va in enumerate(tup):
            if va in fixed:
                continue
            Ja = jacs[a]
            ga = P.np.dot(P.np.transpose(Ja), w)
            for c in range(dims[va]):
                b[offs[va] + c] = b[offs[va] + c] + ga[c]
            for bb, vb in enumerate(tup):
                if vb in fixed:
                    continue
                blk = P.np.dot(P.np.transpose(Ja), P.np.dot(om, jacs[bb]))
                for r in range(dims[va]):
                    for c in range(dims[vb]):
                        H[offs[va] + r, offs[vb] + c] = H[offs[va] + r, offs[vb] + c] + blk[r][c]
    return b, H, free, offs, dims


def check_systems(P, systems, kinds, edges, eobjs, eff):
    """every linear system handed to the solver (symbolic mode), or the last assembled one (concrete mode)"""
    np = P.np
    all_dims = [COMPACT[k] for k in kinds]
    all_offs = [sum(all_dims[:i]) for i in range(len(kinds))]
    b_red, H_red, free, offs, dims = reduced_system(P, kinds, edges, eobjs, eff)
    for A, rhs in systems:
        for i in eff:
            lo, d = all_offs[i], all_dims[i]
            P.check_eq("fixed_diag_identity", A[lo : lo + d, lo : lo + d], np.eye(d))
            P.check_eq("fixed_rhs_zero", rhs[lo : lo + d], np.zeros(d))
            for j in range(len(kinds)):
                if j != i:
                    lj, dj = all_offs[j], all_dims[j]
                    P.check_eq("fixed_offdiag_zero_row", A[lo : lo + d, lj : lj + dj], np.zeros((d, dj)))
                    P.check_eq("fixed_offdiag_zero_col", A[lj : lj + dj, lo : lo + d], np.zeros((dj, d)))
        for i in free:
            li, di = all_offs[i], all_dims[i]
            P.check_eq("reduced_rhs", rhs[li : li + di], -b_red[offs[i] : offs[i] + di])
            for j in free:
                lj, dj = all_offs[j], all_dims[j]
                P.check_eq("reduced_block", A[li : li + di, lj : lj + dj], H_red[offs[i] : offs[i] + di, offs[j] : offs[j] + dj])


def _history(kinds, edges, fixed1, ff1, change, ff2, it2):
    """two consecutive optimize() calls on the same Graph object with the fixed flags edited in between: the second call
    must honour the flags as they are when it starts (no stale state from the first call)"""

    def fn(P, g):
        from .common import mk_pose

        np = P.np
        env = install_stubs(P, g, solver=contract_solver(P) if P.symbolic else None)
        graph, verts, eobjs, ids = structure_graph(P, g, kinds, edges, fixed1, symbolic_ids=False, epoch_chi2=True)
        import warnings

        with warnings.catch_warnings():
            warnings.simplefilter("ignore")
            graph.optimize(tol=0.0, max_iter=1, fix_first_pose=ff1, verbose=False)
        for i, val in change.items():
            verts[i].fixed = val
            if val:
                verts[i].pose = mk_pose(P, g, kinds[i], "pin%d" % i, wrapped=True)  # the user pins it somewhere else
        flags = [v.fixed for v in verts]
        eff = {i for i, f in enumerate(flags) if f} | ({0} if ff2 else set())
        init = [v.pose.to_array() for v in verts]
        n_before = len(env.solves)
        with warnings.catch_warnings():
            warnings.simplefilter("ignore")
            res = graph.optimize(tol=P.real("tol", lo=0.0, hi=1.0), max_iter=it2, fix_first_pose=ff2, verbose=False)
        for i, v in enumerate(verts):
            P.check("flag_%d" % i, v.fixed == (flags[i] or (ff2 and i == 0)))
            if i in eff:
                P.check_eq("fixed_pose_unchanged_%d" % i, v.pose.to_array(), init[i])
        systems = [(A, rhs) for A, rhs, _dx in env.solves[n_before:]] if P.symbolic else [(dense(graph._hessian), -np.array(graph._gradient))]
        check_systems(P, systems, kinds, edges, eobjs, eff)
        P.check("ran", res.num_iterations >= 1)

    return fn


HISTORIES = [
    # kinds, edges, fixed before call 1, ff1, {vertex: new flag} between the calls, ff2
    (["SE2", "SE2", "R2"], [(0, 1), (1, 2)], set(), True, {2: True}, False),
    (["SE2", "SE2", "R2"], [(0, 1), (1, 2)], set(), True, {0: False, 1: True}, False),
    (["R2", "SE2", "R2"], [(0, 1), (1, 2), (0, 2)], {1}, False, {1: False, 2: True}, True),
    (["R3", "R3"], [(0, 1)], set(), True, {0: False}, False),
    (["SE2", "R2", "R2"], [(0, 1), (0, 2)], {1, 2}, True, {1: False}, False),
]


def _case(kinds, edges, fixed, ff, max_iter, raw_quat=()):
    def fn(P, g):
        np = P.np
        env = install_stubs(P, g, solver=contract_solver(P) if P.symbolic else None)
        graph, verts, eobjs, ids = structure_graph(P, g, kinds, edges, fixed, symbolic_ids=False, epoch_chi2=True, raw_quat=raw_quat)
        eff = set(fixed) | ({0} if ff else set())
        init = [v.pose.to_array() for v in verts]
        flags = [v.fixed for v in verts]
        tol = P.real("tol", lo=0.0, hi=1.0)
        import warnings

        with warnings.catch_warnings():
            warnings.simplefilter("ignore")
            res = graph.optimize(tol=tol, max_iter=max_iter, fix_first_pose=ff, verbose=False)
        for i, v in enumerate(verts):
            P.check("flag_%d" % i, v.fixed == (flags[i] or (ff and i == 0)))
            if i in eff:
                P.check_eq("fixed_pose_unchanged_%d" % i, v.pose.to_array(), init[i])
        systems = [(A, rhs) for A, rhs, _dx in env.solves] if P.symbolic else [(dense(graph._hessian), -np.array(graph._gradient))]
        check_systems(P, systems, kinds, edges, eobjs, eff)
        P.check("ran", res.num_iterations >= 1 and res.num_iterations <= max_iter)

    return fn


STRUCTS = [
    # kinds, edges, fixed, fix_first_pose
    (["SE2", "SE2", "R2"], [(0, 1), (1, 2)], set(), True),
    (["SE2", "SE2", "R2"], [(0, 1), (1, 2)], set(), False),  # nothing fixed: gauge freedom
    (["R2", "R2", "R2"], [(0, 1)], set(), True),  # vertex 2 free without edges: singular solve
    (["R2", "R2", "R2"], [(0, 1)], {2}, True),  # fixed vertex without edges
    (["R2", "R2", "R2"], [(0, 1)], {2}, False),
    (["SE2", "R2", "R2"], [(0, 1), (0, 2)], {1}, True),  # fixed landmark
    (["SE2", "R2"], [(0, 1)], {0, 1}, False),  # all fixed
    (["R3", "SE2", "R2"], [(1, 0), (2, 1), (0, 2)], {0, 2}, False),
    (["SE2", "SE2", "SE2"], [(2, 1), (1, 0)], {2}, False),
    (["R2", "SE2"], [(1,), (0, 1)], {1}, False),
    (["R3", "R3"], [(0, 1), (0, 1)], {1}, True),
    (["SE2", "R2", "SE2"], [(0, 1, 2)], {1}, False),
    (["R2", "SE2", "SE2"], [(1, 0), (1, 2)], set(), True),  # fix_first_pose fixes the FIRST LISTED vertex, here a landmark
]
SE3_STRUCTS = [
    (["SE3", "R3"], [(0, 1)], {1}, False),
    (["SE3", "SE3"], [(1, 0)], set(), True),
]


def _name(s, mi):
    kinds, edges, fixed, ff = s
    return "%s_%s_fix%s_ff%d_it%d" % (".".join(kinds), "+".join("-".join(map(str, t)) for t in edges), "".join(map(str, sorted(fixed))) or "none", int(ff), mi)


def cases(tier):
    out = []
    its = (1, 2, 3) if tier == "quick" else (1, 2, 3, 4, 5)
    structs = list(STRUCTS)
    if tier == "thorough":
        import itertools

        seen = {_name(s, 0) for s in structs}
        for kinds, edges in [(["SE2", "SE2", "R2"], [(0, 1), (1, 2)]), (["R2", "R2", "R2"], [(0, 1)]), (["R3", "SE2", "R2"], [(1, 0), (2, 1), (0, 2)]), (["SE2", "R2", "SE2"], [(0, 1, 2)]), (["R2", "SE2", "R3", "R2"], [(0, 1), (2, 1), (3, 1)])]:
            for r in range(len(kinds) + 1):
                for fixed in itertools.combinations(range(len(kinds)), r):
                    for ff in (True, False):
                        s = (kinds, edges, set(fixed), ff)
                        if _name(s, 0) not in seen:
                            seen.add(_name(s, 0))
                            structs.append(s)
    for s in structs:
        for mi in its:
            out.append(Case(_name(s, mi), _case(*s, mi), timeout=10, old_timeout=20, validate=1, feas_timeout_ms=1500))
    for hi, h in enumerate(HISTORIES):
        for it2 in (1, 2) if tier == "quick" else (1, 2, 3):
            out.append(Case("history%d_it%d" % (hi, it2), _history(*h, it2), timeout=10, old_timeout=20, validate=1, feas_timeout_ms=1500))
    for s in SE3_STRUCTS:
        for mi in (1,) if tier == "quick" else (1, 2):
            out.append(Case(_name(s, mi), _case(*s, mi), timeout=10, old_timeout=20, validate=1, feas_timeout_ms=1500))
    # fixed SE(3) vertices whose stored quaternion is NOT of unit length (and may have w < 0): still bit-for-bit unchanged
    for s in [(["SE3", "R3"], [(0, 1)], set(), True), (["R3", "SE3"], [(1, 0)], {1}, False)]:
        out.append(Case("rawquat_" + _name(s, 1), _case(*s, 1, raw_quat=(0, 1)), timeout=10, old_timeout=20, validate=1, feas_timeout_ms=1500))
    return out
