"""Helpers shared by the harness modules (no z3 import: also used in concrete mode)."""
from symrun.runner import Case  # noqa: F401

POSE_KINDS = ["R2", "R3", "SE2", "SE3"]
COMPACT = {"R2": 2, "R3": 3, "SE2": 3, "SE3": 6}
FULL = {"R2": 2, "R3": 3, "SE2": 3, "SE3": 7}
POINT_OF = {"SE2": "R2", "SE3": "R3", "R2": "R2", "R3": "R3"}


def mk_pose(P, g, kind, name, wrapped=False):
    """a pose of the given type whose every component is an arbitrary input (quaternions unit, angles any real)"""
    if kind == "R2":
        return g.PoseR2(P.reals(name, 2))
    if kind == "R3":
        return g.PoseR3(P.reals(name, 3))
    if kind == "SE2":
        return g.PoseSE2(P.reals(name, 2), P.angle(name + "_th", wrapped=wrapped, big=True))
    if kind == "SE3":
        return g.PoseSE3(P.reals(name, 3), P.unit_quat(name + "_q"))
    raise ValueError(kind)


def pose_cls(g, kind):
    return {"R2": g.PoseR2, "R3": g.PoseR3, "SE2": g.PoseSE2, "SE3": g.PoseSE3}[kind]


def eye(P, n):
    import numpy

    return numpy.eye(n)


def mk_odometry(P, g, kind, info=None, ids=(0, 1), names=("p1", "p2", "z")):
    v1 = g.Vertex(ids[0], mk_pose(P, g, kind, names[0]))
    v2 = g.Vertex(ids[1], mk_pose(P, g, kind, names[1]))
    z = mk_pose(P, g, kind, names[2])
    if info is None:
        info = eye(P, COMPACT[kind])
    e = g.EdgeOdometry([ids[0], ids[1]], info, z, vertices=[v1, v2])
    return e, v1, v2


def mk_landmark(P, g, kind, info=None, ids=(0, 1), names=("p1", "l", "z", "off")):
    """kind: type of the observing pose (SE2, SE3, R2, R3); the landmark/measurement are points of matching dimension"""
    pt = POINT_OF[kind]
    v1 = g.Vertex(ids[0], mk_pose(P, g, kind, names[0]))
    v2 = g.Vertex(ids[1], mk_pose(P, g, pt, names[1]))
    z = mk_pose(P, g, pt, names[2])
    off = mk_pose(P, g, kind, names[3])
    if info is None:
        info = eye(P, COMPACT[pt])
    e = g.EdgeLandmark([ids[0], ids[1]], info, z, off, offset_id=0, vertices=[v1, v2])
    return e, v1, v2


EDGE_KINDS = [("odom", k) for k in POSE_KINDS] + [("lmk", k) for k in ["SE2", "SE3", "R2", "R3"]]


def mk_edge(P, g, ek, **kw):
    if ek[0] == "odom":
        return mk_odometry(P, g, ek[1], **kw)
    return mk_landmark(P, g, ek[1], **kw)


def error_dim(ek):
    return COMPACT[ek[1]] if ek[0] == "odom" else COMPACT[POINT_OF[ek[1]]]
