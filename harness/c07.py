"""C07 - chi^2 and the optimisation trajectory are independent of the world frame."""
from .common import COMPACT, EDGE_KINDS, POINT_OF, Case, mk_edge, mk_pose

PROPERTY = "C07"
EXPLANATION = (
    "Relation between two symbolic runs of the real code. For every edge kind, with every vertex left-composed with one "
    "symbolic rigid transform T (any element of SE(2)/SE(3), a translation for R^n): (1) every component of the real "
    "calc_error is unchanged, (2) every entry of the real calc_jacobians is unchanged, (3) hence chi^2 = e^T Omega e (the "
    "formula itself is C02) is unchanged, and (4) the real boxplus is left-equivariant, (T+p) [+] Q d = T + (p [+] d), for a symbolic "
    "increment d on both branches of the SE(3) norm test, where Q = I for poses (right-multiplicative update) and Q = R_T "
    "for point vertices (world-frame additive update); correspondingly the Jacobian w.r.t. a point vertex is J Q^T. (1)+(2) "
    "give b' = Q b, H' = Q H Q^T with Q orthogonal block-diagonal (assembly itself is C03), hence dx' = Q dx; (4) makes the "
    "updated transformed graph the transform of the updated graph: the inductive step covers any number of iterations. "
    "Commute cases additionally run the real optimize() (1..2 iterations, solver stub = deterministic function of the linear "
    "system) on a graph and on its transform with edges reporting identical errors/Jacobians, and prove that every vertex of "
    "the second ends at T + (vertex of the first): no step of optimize() may depend on absolute coordinates. SE(3) odometry involves four unit-quaternion constraints and is discharged by "
    "the reduction-certificate route (z3-checked local lemmas) when neither z3 version decides it directly."
)
BOUNDS = "8 edge kinds, T and all poses/measurements/offsets symbolic; one inductive step; commute cases: 3-vertex graphs, 1..2 iterations, harness edges for all four pose types and the real edge classes for R^2/R^3 translations (optionally with vertices sharing one buffer)"
OUTSIDE = "rounding (the two runs differ at rounding level in floating point); T is applied to all vertices"
ASSUMPTIONS = ["unit quaternions", "cos/sin addition formulas", "sqrt contract", "assembly/solve depend on the vertices only through e, J and boxplus (C03)"]


def _transformed(P, g, ek, T, e, v1, v2):
    """same edge object kinds with vertices T+p"""
    w1 = g.Vertex(v1.id, T + v1.pose)
    w2 = g.Vertex(v2.id, T + v2.pose)
    if ek[0] == "odom":
        return g.EdgeOdometry(list(e.vertex_ids), e.information, e.estimate, vertices=[w1, w2])
    return g.EdgeLandmark(list(e.vertex_ids), e.information, e.estimate, e.offset, offset_id=e.offset_id, vertices=[w1, w2])


def _errors(ek):
    def fn(P, g):
        e, v1, v2 = mk_edge(P, g, ek)
        T = mk_pose(P, g, ek[1], "T")
        e2 = _transformed(P, g, ek, T, e, v1, v2)
        P.check_eq("error", e2.calc_error(), e.calc_error())

    return fn


def _rot_of(P, kind, T):
    """rotation block of the transform (independent textbook formula); identity for translations"""
    np = P.np
    if kind == "SE2":
        c, s = np.cos(T[2]), np.sin(T[2])
        return np.array([[c, -s], [s, c]])
    if kind == "SE3":
        x, y, z, w = T[3], T[4], T[5], T[6]
        return np.array(
            [
                [1 - 2 * (y * y + z * z), 2 * (x * y - z * w), 2 * (x * z + y * w)],
                [2 * (x * y + z * w), 1 - 2 * (x * x + z * z), 2 * (y * z - x * w)],
                [2 * (x * z - y * w), 2 * (y * z + x * w), 1 - 2 * (x * x + y * y)],
            ]
        )
    return None


def _jacobians(ek):
    """J'_k = J_k Q_k^T with Q_k = I for vertices updated by right-multiplication (poses of the transform's own type, and
    everything under a pure translation) and Q_k = R_T for point vertices, whose boxplus is a world-frame addition.
    Then b' = Q b, H' = Q H Q^T with Q orthogonal block-diagonal, hence dx' = Q dx."""

    def fn(P, g):
        np = P.np
        e, v1, v2 = mk_edge(P, g, ek)
        T = mk_pose(P, g, ek[1], "T")
        e2 = _transformed(P, g, ek, T, e, v1, v2)
        j1 = e.calc_jacobians()
        j2 = e2.calc_jacobians()
        P.check("count", len(j1) == len(j2))
        for k, v in enumerate((v1, v2)):
            Q = None
            if type(v.pose) is not type(T):
                Q = _rot_of(P, ek[1], T)
            expect = j1[k] if Q is None else np.dot(j1[k], np.transpose(Q))
            P.check_eq("J%d" % k, j2[k], expect)

    return fn


def _equivariance(kind, tkind):
    def fn(P, g):
        np = P.np
        p = mk_pose(P, g, kind, "p")
        T = mk_pose(P, g, tkind, "T")
        d = P.vector("d", COMPACT[kind])
        Q = _rot_of(P, tkind, T) if kind != tkind else None
        d2 = d if Q is None else np.dot(Q, d)
        P.check_eq("boxplus_equivariant", ((T + p) + d2).to_array(), (T + (p + d)).to_array())
        # the same through the in-place operator the optimizer uses (v.pose += dx)
        x = (T + p).copy()
        x += d2
        y = p.copy()
        y += d
        P.check_eq("iadd_equivariant", x.to_array(), (T + y).to_array())

    return fn


def _commute(kind, iters, epoch=False):
    """optimize() commutes with the transform: two graphs G and T.G whose edges report the same (frame-invariant, by the
    cases above) errors and Jacobians, a solver stub that is a deterministic function of the linear system, the real
    optimize() on both: every vertex of the second graph must end at T + (vertex of the first)."""

    def fn(P, g):
        from .graphkit import functional_solver, install_stubs, make_free_edge_class, structure_graph

        np = P.np
        n = COMPACT[kind]
        kinds = [kind, kind, kind]
        edges = [(0, 1), (1, 2), (2, 0)]
        env = install_stubs(P, g, solver=functional_solver(P) if P.symbolic else None)
        # epoch: chi^2 is a free value per graph state, THE SAME value for corresponding states of the two graphs (chi^2 is
        # frame invariant): every outcome of chi^2-dependent control flow (chi^2 rising, falling, ...) is explored
        G1, verts1, eobjs1, ids = structure_graph(P, g, kinds, edges, {0}, symbolic_ids=False, m=n, epoch_chi2=epoch)
        T = mk_pose(P, g, kind, "T")
        FreeEdge = type(eobjs1[0]) if epoch else make_free_edge_class(g)
        verts2 = [g.Vertex(v.id, T + v.pose, fixed=v.fixed) for v in verts1]
        eobjs2 = [FreeEdge(list(e.vertex_ids), e.information, e._err, e._jacs) for e in eobjs1]
        if epoch:
            for e1, e2 in zip(eobjs1, eobjs2):
                e2.k = e1.k
                e2.__dict__["chi"] = e1.__dict__.setdefault("chi", {})
        G2 = g.Graph(eobjs2, verts2)
        import warnings

        with warnings.catch_warnings():
            warnings.simplefilter("ignore")
            r1 = G1.optimize(tol=0.0, max_iter=iters, fix_first_pose=False, verbose=False)
            r2 = G2.optimize(tol=0.0, max_iter=iters, fix_first_pose=False, verbose=False)
        P.check("same_iterations", r1.num_iterations == r2.num_iterations)
        for i, (a, b) in enumerate(zip(verts1, verts2)):
            P.check_eq("commutes_%d" % i, b.pose.to_array(), (T + a.pose).to_array(), tol=1e-6)
        P.check_eq("same_final_chi2", r2.final_chi2, r1.final_chi2, tol=1e-6)

    return fn


def _commute_real(dim, iters, shared):
    """the same with the REAL EdgeOdometry / EdgeLandmark classes on an R^n graph (pose, pose, landmark; landmark edges with
    sensor offsets) and a translation T: the two linear systems are compared up to polynomial normal form.  ``shared``:
    the original graph's vertices all start at one point and are views of ONE array (the translate is freshly allocated)"""

    def fn(P, g):
        import numpy

        from .graphkit import functional_solver, install_stubs

        np = P.np
        kind = "R%d" % dim
        cls = g.PoseR2 if dim == 2 else g.PoseR3
        env = install_stubs(P, g, solver=functional_solver(P, normalise=True) if P.symbolic else None)
        if shared:
            start = P.vector("start", dim)
            poses = [cls(start) for _ in range(3)]
        else:
            poses = [mk_pose(P, g, kind, "x%d" % i) for i in range(3)]
        T = mk_pose(P, g, kind, "T")
        oms = [P.sym_matrix("om%d" % k, dim, psd=True) for k in range(3)]
        zs = [mk_pose(P, g, kind, "z%d" % k) for k in range(3)]
        offs = [mk_pose(P, g, kind, "off%d" % k) for k in range(3)]

        def build(ps):
            verts = [g.Vertex(i, p, fixed=(i == 0)) for i, p in enumerate(ps)]
            es = [g.EdgeOdometry([0, 1], oms[0], zs[0]), g.EdgeLandmark([0, 2], oms[1], zs[1], offs[1], offset_id=1), g.EdgeLandmark([1, 2], oms[2], zs[2], offs[2], offset_id=2)]
            return g.Graph(es, verts), verts

        G1, verts1 = build(poses)
        G2, verts2 = build([T + p for p in poses])
        import warnings

        with warnings.catch_warnings():
            warnings.simplefilter("ignore")
            r1 = G1.optimize(tol=0.0, max_iter=iters, fix_first_pose=False, verbose=False)
            r2 = G2.optimize(tol=0.0, max_iter=iters, fix_first_pose=False, verbose=False)
        P.check("same_iterations", r1.num_iterations == r2.num_iterations)
        for i, (a, b) in enumerate(zip(verts1, verts2)):
            P.check_eq("commutes_%d" % i, b.pose.to_array(), (T + a.pose).to_array(), tol=1e-6)
        P.check_eq("same_initial_chi2", r2.initial_chi2, r1.initial_chi2, tol=1e-6)
        P.check_eq("same_final_chi2", r2.final_chi2, r1.final_chi2, tol=1e-6)

    return fn


def cases(tier):
    v = 2 if tier == "quick" else 6
    out = []
    for ek in EDGE_KINDS:
        heavy = ek == ("odom", "SE3")
        out.append(Case("error-%s-%s" % ek, _errors(ek), timeout=10, old_timeout=20, validate=v, shards=2 if heavy else 1))
        out.append(Case("jac-%s-%s" % ek, _jacobians(ek), timeout=10, old_timeout=20, validate=v, shards=12 if heavy else (3 if ek[1] == "SE3" else 1)))
    for kind, tkind in [("R2", "R2"), ("R3", "R3"), ("SE2", "SE2"), ("SE3", "SE3"), ("R2", "SE2"), ("R3", "SE3")]:
        out.append(Case("equiv-%s-under-%s" % (kind, tkind), _equivariance(kind, tkind), timeout=15, old_timeout=30, validate=v))
    for kind in ("R2", "R3", "SE2", "SE3"):
        for iters in (1, 2) if kind in ("R2", "R3") else (1,):
            out.append(Case("commute-%s-it%d" % (kind, iters), _commute(kind, iters), timeout=15, old_timeout=30, validate=v if kind != "SE3" else 1, val_tol=1e-4, feas_timeout_ms=1500, shards=2 if kind == "SE3" else 1))
    for kind in ("SE2", "SE3"):
        out.append(Case("commute-anychi2-%s-it1" % kind, _commute(kind, 1, epoch=True), timeout=15, old_timeout=30, validate=1, val_tol=1e-4, feas_timeout_ms=1500, shards=2 if kind == "SE3" else 1))
    for dim, iters, shared in [(2, 1, False), (2, 2, False), (3, 1, False), (2, 2, True), (3, 1, True)]:
        out.append(Case("commute-real-R%d-it%d%s" % (dim, iters, "-shared" if shared else ""), _commute_real(dim, iters, shared), timeout=15, old_timeout=30, validate=v, val_tol=1e-4, feas_timeout_ms=1500))
    return out
