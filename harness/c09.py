"""C09 - pose composition is the rigid-motion group."""
from .common import COMPACT, FULL, POINT_OF, POSE_KINDS, Case, mk_pose, pose_cls

PROPERTY = "C09"
EXPLANATION = (
    "The real __add__ (pose, point, raw ndarray and boxplus branches), __sub__, inverse, identity, __iadd__, to_matrix, "
    "to_compact and copy of the four pose classes are executed on solver variables. z3 proves for all operands on the "
    "manifold: M(a+b)=M(a)M(b) against an independently written homogeneous-matrix model, a-b = b^-1+a, two-sided inverse "
    "and identity, associativity, pose+point = M(p)[point;1], p [+] delta = p + Pose(delta) with rotational part "
    "(delta_v, +sqrt(1-|delta_v|^2)), and += equals +."
)
BOUNDS = "4 pose types; all operands symbolic (3 poses + 1 point + 1 increment); both branches of the SE(3) boxplus norm test; laws re-proved after in-place edits of a used pose object; results are values (no aliasing between results, results as operands); integer-dtype raw operands (4 constant points / increments)"
OUTSIDE = "PoseSE2.from_matrix (atan2 is transcendental), rounding; SE(3) increments with |delta_v|>1 are checked only for 'rotation unchanged' as coded"
ASSUMPTIONS = ["unit quaternions", "cos/sin addition formulas, cos^2+sin^2=1", "sqrt contract r>=0, r^2=arg", "a % m = a - m k with integer k and 0<=result<m"]


def ref_matrix(P, g, kind, p):
    """independent homogeneous-matrix model of a pose (textbook rotation matrices)"""
    np = P.np
    if kind == "R2":
        return np.array([[1.0, 0.0, p[0]], [0.0, 1.0, p[1]], [0.0, 0.0, 1.0]])
    if kind == "R3":
        return np.array([[1.0, 0.0, 0.0, p[0]], [0.0, 1.0, 0.0, p[1]], [0.0, 0.0, 1.0, p[2]], [0.0, 0.0, 0.0, 1.0]])
    if kind == "SE2":
        c, s = np.cos(p[2]), np.sin(p[2])
        return np.array([[c, -s, p[0]], [s, c, p[1]], [0.0, 0.0, 1.0]])
    x, y, z, w = p[3], p[4], p[5], p[6]
    return np.array(
        [
            [1 - 2 * (y * y + z * z), 2 * (x * y - z * w), 2 * (x * z + y * w), p[0]],
            [2 * (x * y + z * w), 1 - 2 * (x * x + z * z), 2 * (y * z - x * w), p[1]],
            [2 * (x * z - y * w), 2 * (y * z + x * w), 1 - 2 * (x * x + y * y), p[2]],
            [0.0, 0.0, 0.0, 1.0],
        ]
    )


def _laws(kind):
    def fn(P, g):
        np = P.np
        cls = pose_cls(g, kind)
        a = mk_pose(P, g, kind, "a")
        b = mk_pose(P, g, kind, "b")
        Ma, Mb = ref_matrix(P, g, kind, a), ref_matrix(P, g, kind, b)
        ab = a + b
        P.check("type_add", type(ab) is cls)
        P.check_eq("matrix_hom", ref_matrix(P, g, kind, ab), np.dot(Ma, Mb))
        if hasattr(a, "to_matrix"):
            P.check_eq("to_matrix", a.to_matrix(), Ma)
        amb = a - b
        P.check("type_sub", type(amb) is cls)
        P.check_eq("ominus_def", amb.to_array(), (b.inverse + a).to_array())
        ident = cls.identity()
        P.check_eq("inv_right", (a + a.inverse).to_array(), ident.to_array())
        P.check_eq("inv_left", (a.inverse + a).to_array(), ident.to_array())
        P.check_eq("id_left", (ident + a).to_array(), a.to_array())
        P.check_eq("id_right", (a + ident).to_array(), a.to_array())
        P.check_eq("matrix_inverse", np.dot(ref_matrix(P, g, kind, a.inverse), Ma), np.eye(len(Ma)))
        P.check_eq("self_minus_self", (a - a).to_array(), ident.to_array())
        # in-place add delegates to composition and does not mutate the operand object
        c = a.copy()
        c0 = c
        c += b
        P.check_eq("iadd", c.to_array(), ab.to_array())
        P.check_eq("iadd_operand_untouched", c0.to_array(), a.to_array())
        P.check_eq("copy", a.copy().to_array(), a.to_array())
        n = COMPACT[kind]
        P.check_eq("compact", a.to_compact(), a.to_array()[:n])
        P.check_eq("position", a.position, a.to_array()[: {"R2": 2, "R3": 3, "SE2": 2, "SE3": 3}[kind]])

    return fn


def _after_edit(kind):
    """a pose object is used in every operation once, its stored components are then overwritten IN PLACE with new values,
    and the laws must hold for the new values (no state cached on the object)"""

    def fn(P, g):
        np = P.np
        cls = pose_cls(g, kind)
        a = mk_pose(P, g, kind, "a", wrapped=True)
        b = mk_pose(P, g, kind, "b", wrapped=True)
        q = mk_pose(P, g, POINT_OF[kind], "q")
        n = COMPACT[kind]
        d = P.vector("d", n, lo=-0.4, hi=0.4)
        # first use
        _ = (a + b, a - b, b - a, a.inverse, a + q, a + d, a.copy(), a.to_compact())
        if hasattr(a, "to_matrix"):
            a.to_matrix()
        for name in ("jacobian_boxplus", "jacobian_inverse"):
            getattr(a, name)()
        a.jacobian_self_oplus_other_wrt_self(b)
        a.jacobian_self_ominus_other_wrt_other(b)
        # in-place edit
        new = mk_pose(P, g, kind, "anew", wrapped=True)
        a[:] = new.to_array()
        Ma, Mb = ref_matrix(P, g, kind, a), ref_matrix(P, g, kind, b)
        P.check_eq("matrix_hom_after_edit", ref_matrix(P, g, kind, a + b), np.dot(Ma, Mb))
        P.check_eq("ominus_after_edit", (b - a).to_array(), (a.inverse + b).to_array())
        P.check_eq("inverse_after_edit", np.dot(ref_matrix(P, g, kind, a.inverse), Ma), np.eye(len(Ma)))
        m = COMPACT[POINT_OF[kind]]
        hom = np.array([q[i] for i in range(m)] + [1.0])
        P.check_eq("point_after_edit", (a + q).to_array(), np.dot(Ma, hom)[:m])
        P.check_eq("equals_fresh_pose", (a + b).to_array(), (new + b).to_array())
        P.check_eq("boxplus_after_edit", (a + d).to_array(), (new + d).to_array())
        if hasattr(a, "to_matrix"):
            P.check_eq("to_matrix_after_edit", a.to_matrix(), Ma)

    return fn


def _assoc(kind):
    def fn(P, g):
        a = mk_pose(P, g, kind, "a")
        b = mk_pose(P, g, kind, "b")
        c = mk_pose(P, g, kind, "c")
        P.check_eq("assoc", ((a + b) + c).to_array(), (a + (b + c)).to_array())

    return fn


def _point(kind):
    pt = POINT_OF[kind]

    def fn(P, g):
        np = P.np
        a = mk_pose(P, g, kind, "a")
        q = mk_pose(P, g, pt, "q")
        n = COMPACT[pt]
        Ma = ref_matrix(P, g, kind, a)
        hom = np.array([q[i] for i in range(n)] + [1.0])
        expect = np.dot(Ma, hom)[:n]
        r1 = a + q
        P.check("type_point", type(r1) is pose_cls(g, pt))
        P.check_eq("point_action", r1.to_array(), expect)
        if kind in ("SE2", "SE3"):
            raw = np.array([q[i] for i in range(n)])
            r2 = a + raw
            P.check("type_raw_point", type(r2) is pose_cls(g, pt))
            P.check_eq("raw_point_action", r2.to_array(), expect)

    return fn


def _boxplus(kind):
    def fn(P, g):
        np = P.np
        cls = pose_cls(g, kind)
        a = mk_pose(P, g, kind, "a")
        n = COMPACT[kind]
        d = P.vector("d", n)
        res = a + d
        P.check("type_boxplus", type(res) is cls)
        if kind in ("R2", "R3"):
            P.check_eq("boxplus", res.to_array(), (a + cls(d)).to_array())
        elif kind == "SE2":
            P.check_eq("boxplus", res.to_array(), (a + cls(d[:2], d[2])).to_array())
        else:
            nv2 = d[3] * d[3] + d[4] * d[4] + d[5] * d[5]
            if P.is_true(nv2 <= 1.0):
                w = np.sqrt(1.0 - nv2)
                P.check_eq("boxplus", res.to_array(), (a + cls(d[:3], [d[3], d[4], d[5], w])).to_array())
            else:
                # as coded: the rotation is left unchanged, the translation is still applied
                P.check_eq("boxplus_big", res.to_array(), (a + cls(d[:3], [0.0, 0.0, 0.0, 1.0])).to_array())

    return fn


def _results_are_values(kind):
    """a result is a value: a later operation neither changes an earlier result nor shares memory with it, and a result
    can be fed straight back as an operand (a (+) (b (+) x) is M_a M_b x)"""
    pt = POINT_OF[kind]

    def fn(P, g):
        import numpy

        np = P.np
        a = mk_pose(P, g, kind, "a", wrapped=True)
        b = mk_pose(P, g, kind, "b", wrapped=True)
        q = mk_pose(P, g, pt, "q")
        q2 = mk_pose(P, g, pt, "q2")
        n = COMPACT[pt]
        Ma, Mb = ref_matrix(P, g, kind, a), ref_matrix(P, g, kind, b)
        hom = np.array([q[i] for i in range(n)] + [1.0])
        ops = [
            ("point", lambda: a + q, lambda: b + q2),
            ("raw_point", lambda: a + np.array([q[i] for i in range(n)]), lambda: b + np.array([q2[i] for i in range(n)])),
            ("oplus", lambda: a + b, lambda: b + a),
            ("ominus", lambda: a - b, lambda: b - a),
            ("inverse", lambda: a.inverse, lambda: b.inverse),
            ("copy", lambda: a.copy(), lambda: b.copy()),
        ]
        for name, first, second in ops:
            r1 = first()
            keep = numpy.array(r1.to_array(), copy=True)
            r2 = second()
            P.check("%s:no_shared_memory" % name, not numpy.shares_memory(numpy.asarray(r1), numpy.asarray(r2)))
            P.check_eq("%s:earlier_result_unchanged" % name, r1.to_array(), keep)
        # identity() is a value too: editing a pose obtained from it does not change what identity() returns later
        cls = pose_cls(g, kind)
        ident = cls.identity()
        keep_id = numpy.array(ident.to_array(), copy=True)
        ident[0] = ident[0] + 0.3
        P.check_eq("identity_unaffected_by_edit_of_an_earlier_identity", cls.identity().to_array(), keep_id)
        P.check_eq("right_identity_after_edit", (a + cls.identity()).to_array(), a.to_array())
        P.check_eq("left_identity_after_edit", (cls.identity() + a).to_array(), a.to_array())
        # results as operands
        P.check_eq("nested_point_action", (a + (b + q)).to_array(), np.dot(Ma, np.dot(Mb, hom))[:n])
        raw = np.array([q[i] for i in range(n)])
        P.check_eq("nested_raw_point_action", (a + (b + raw)).to_array(), np.dot(Ma, np.dot(Mb, hom))[:n])
        P.check_eq("nested_oplus", ref_matrix(P, g, kind, a + (b + a)), np.dot(Ma, np.dot(Mb, Ma)))

    return fn


def _int_operands(kind):
    """raw numpy operands of INTEGER dtype (np.array([3, 4])): the point action and the update are those of the same
    numbers as floats (no truncation through the operand's dtype)"""

    def fn(P, g):
        import numpy

        np = P.np
        cls = pose_cls(g, kind)
        a = mk_pose(P, g, kind, "a", wrapped=True)
        n = COMPACT[POINT_OF[kind]]
        Ma = ref_matrix(P, g, kind, a)
        for pt in ([3, 4, -2][:n], [0, -1, 5][:n]):
            expect = np.dot(Ma, np.array([float(x) for x in pt] + [1.0]))[:n]
            P.check_eq("int_point_action", (a + numpy.array(pt)).to_array(), expect)
        for inc in ([2, -1, 1, 0, 0, 0], [0, 3, 0, 0, 1, 0]):
            d = inc[: COMPACT[kind]] if kind != "SE2" else inc[:3]
            if kind in ("SE2", "SE3"):
                ref = a + numpy.array([float(x) for x in d])
                got = a + numpy.array(d)
                P.check_eq("int_boxplus", got.to_array(), ref.to_array())
                b = a.copy()
                b += numpy.array(d)
                P.check_eq("int_iadd", b.to_array(), ref.to_array())

    return fn


def cases(tier):
    out = []
    v = 2 if tier == "quick" else 6
    for k in POSE_KINDS:
        out.append(Case("laws-" + k, _laws(k), timeout=20, old_timeout=30, validate=v))
        out.append(Case("after-edit-" + k, _after_edit(k), timeout=20, old_timeout=30, validate=v))
        out.append(Case("assoc-" + k, _assoc(k), timeout=10, old_timeout=60, validate=v))
        out.append(Case("point-" + k, _point(k), timeout=20, validate=v))
        out.append(Case("boxplus-" + k, _boxplus(k), timeout=20, validate=v))
        out.append(Case("values-" + k, _results_are_values(k), timeout=20, old_timeout=30, validate=v, cert_first=(k == "SE3")))
        if k in ("SE2", "SE3"):
            out.append(Case("int-operands-" + k, _int_operands(k), timeout=20, validate=v))
    return out
