"""CrossHair targets for clause (b) of C14: prefix dispatch of arbitrary lines (symbolic str, no numpy before the decision).
Checked with:  python3-vt -m crosshair check --report_all --per_condition_timeout T harness/c14_dispatch_crosshair.py
Each claim has a reachability twin (same precondition, postcondition that must be REFUTED)."""
import os
import sys

sys.dont_write_bytecode = True
sys.path.insert(0, os.environ.get("VERIF_REPO", "/repo"))
sys.modules.setdefault("matplotlib", None)
sys.modules.setdefault("matplotlib.pyplot", None)
sys.modules.setdefault("mpl_toolkits", None)
sys.modules.setdefault("mpl_toolkits.mplot3d", None)

from graphslam.edge.edge_landmark import EdgeLandmark  # noqa: E402
from graphslam.edge.edge_odometry import EdgeOdometry  # noqa: E402
from graphslam.g2o_parameters import G2OParameterSE2Offset, G2OParameterSE3Offset  # noqa: E402
from graphslam.vertex import Vertex  # noqa: E402

KEYWORDS = [
    "VERTEX_XY ",
    "VERTEX_TRACKXYZ ",
    "VERTEX_SE2 ",
    "VERTEX_SE3:QUAT ",
    "EDGE_SE2 ",
    "EDGE_SE3:QUAT ",
    "EDGE_SE2_XY ",
    "EDGE_SE3_TRACKXYZ ",
    "PARAMS_SE2OFFSET ",
    "PARAMS_SE3OFFSET ",
]


def _starts_with_keyword(line: str) -> bool:
    for k in KEYWORDS:
        if line.startswith(k):
            return True
    return False


def _all_none(line: str) -> bool:
    return (
        Vertex.from_g2o(line) is None
        and EdgeOdometry.from_g2o(line, {}) is None
        and EdgeLandmark.from_g2o(line, {}) is None
        and G2OParameterSE2Offset.from_g2o(line) is None
        and G2OParameterSE3Offset.from_g2o(line) is None
    )


def junk_line_is_ignored(line: str) -> bool:
    """
    pre: len(line) <= 20
    pre: not _starts_with_keyword(line)
    post: _ == True
    """
    return _all_none(line)


def twin_junk_line_reachable(line: str) -> bool:
    """
    pre: len(line) <= 20
    pre: not _starts_with_keyword(line)
    post: _ == False
    """
    return _all_none(line)


def foreign_parsers_ignore_vertex_lines(k: int, rest: str) -> bool:
    """
    A vertex line is never claimed by an edge or parameter parser.
    pre: 0 <= k < 4
    pre: len(rest) <= 6
    post: _ == True
    """
    line = KEYWORDS[k] + rest
    return EdgeOdometry.from_g2o(line, {}) is None and EdgeLandmark.from_g2o(line, {}) is None and G2OParameterSE2Offset.from_g2o(line) is None and G2OParameterSE3Offset.from_g2o(line) is None


def foreign_parsers_ignore_odometry_lines(k: int, rest: str) -> bool:
    """
    pre: 4 <= k < 6
    pre: len(rest) <= 6
    post: _ == True
    """
    line = KEYWORDS[k] + rest
    return Vertex.from_g2o(line) is None and EdgeLandmark.from_g2o(line, {}) is None and G2OParameterSE2Offset.from_g2o(line) is None and G2OParameterSE3Offset.from_g2o(line) is None


def foreign_parsers_ignore_landmark_lines(k: int, rest: str) -> bool:
    """
    In particular "EDGE_SE2_XY ..." must not be taken for an "EDGE_SE2 ..." line.
    pre: 6 <= k < 8
    pre: len(rest) <= 6
    post: _ == True
    """
    line = KEYWORDS[k] + rest
    return Vertex.from_g2o(line) is None and EdgeOdometry.from_g2o(line, {}) is None and G2OParameterSE2Offset.from_g2o(line) is None and G2OParameterSE3Offset.from_g2o(line) is None


def foreign_parsers_ignore_parameter_lines(k: int, rest: str) -> bool:
    """
    pre: 8 <= k < 10
    pre: len(rest) <= 6
    post: _ == True
    """
    line = KEYWORDS[k] + rest
    own_other = G2OParameterSE3Offset.from_g2o(line) if k == 8 else G2OParameterSE2Offset.from_g2o(line)
    return Vertex.from_g2o(line) is None and EdgeOdometry.from_g2o(line, {}) is None and EdgeLandmark.from_g2o(line, {}) is None and own_other is None


def twin_foreign_reachable(k: int, rest: str) -> bool:
    """
    pre: 0 <= k < 10
    pre: len(rest) <= 6
    post: _ == False
    """
    line = KEYWORDS[k] + rest
    return line.startswith(KEYWORDS[k])


CLAIMS = ["junk_line_is_ignored", "foreign_parsers_ignore_vertex_lines", "foreign_parsers_ignore_odometry_lines", "foreign_parsers_ignore_landmark_lines", "foreign_parsers_ignore_parameter_lines"]
TWINS = ["twin_junk_line_reachable", "twin_foreign_reachable"]


def replay(fn_name, kwargs):
    """concrete re-execution of a CrossHair counterexample against the real parsers (run under /venv/bin/python)"""
    f = globals()[fn_name]
    try:
        return bool(f(**kwargs)), None
    except Exception as e:  # noqa
        return False, "%s: %s" % (type(e).__name__, e)


if __name__ == "__main__":
    import json

    spec = json.loads(sys.argv[1])
    ok, err = replay(spec["fn"], spec["kwargs"])
    print(json.dumps({"holds": ok, "error": err}))
