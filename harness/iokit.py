"""In-memory files and number-token plumbing for the .g2o harnesses (C13, C14)."""
import io
import logging


class FakeFS:
    def __init__(self):
        self.files = {}

    def open(self, name, mode="r", *a, **k):
        fs = self

        class W(io.StringIO):
            def close(self_inner):
                fs.files[name] = self_inner.getvalue()
                super().close()

            def __exit__(self_inner, *exc):
                self_inner.close()
                return False

        if "w" in mode:
            return W()
        if name not in self.files:
            raise FileNotFoundError(name)
        return io.StringIO(self.files[name])


IO_MODULES = ["graphslam.vertex", "graphslam.edge.edge_odometry", "graphslam.edge.edge_landmark", "graphslam.g2o_parameters", "graphslam.util"]  # not graphslam.graph: it uses np.finfo(float)


def install_io(P, g):
    """bind open() of graphslam.graph to an in-memory file system; in symbolic mode bind float/int of the parsing modules
    to the token resolvers"""
    fs = FakeFS()
    g.graph_mod.open = fs.open
    if P.symbolic:
        from symrun import tokens

        for name in IO_MODULES:
            mod = g.mods[name]
            mod.float = tokens.sym_float
            mod.int = tokens.sym_int
    return fs


_NUM_STYLE = [0]


def num(x):
    """text of a number: a token in symbolic mode (stands for ANY lexical form float()/int() accept); in concrete mode
    the lexical form rotates over shortest repr, explicit sign, lower- and upper-case scientific notation with 17
    significant digits (all parse back to the same double)"""
    if isinstance(x, bool) or not isinstance(x, (int, float)):
        return "{}".format(x)
    _NUM_STYLE[0] += 1
    k = _NUM_STYLE[0] % 5
    if isinstance(x, int):
        return "%+d" % x if (k == 1 and x >= 0) else "%d" % x
    if x != x or x in (float("inf"), float("-inf")):
        return repr(x)
    if k == 1:
        return "%.17e" % x
    if k == 2:
        return "%.17E" % x
    if k == 3:
        return ("" if repr(x).startswith("-") else "+") + repr(x)  # (-0.0 prints with its sign already)
    return repr(x)


class LogCapture(logging.Handler):
    def __init__(self):
        super().__init__(level=logging.DEBUG)
        self.records = []

    def emit(self, record):
        self.records.append(record)


def capture_logs(g):
    h = LogCapture()
    lg = g.graph_mod._LOGGER
    for old in [x for x in lg.handlers if isinstance(x, LogCapture)]:
        lg.removeHandler(old)
    lg.addHandler(h)
    lg.propagate = False
    lg2 = g.load_mod._LOGGER
    for old in [x for x in lg2.handlers if isinstance(x, LogCapture)]:
        lg2.removeHandler(old)
    lg2.propagate = False
    lg2.addHandler(LogCapture())
    return h


def custom_edge_class(g, P):
    """a registered custom edge type with to_g2o/from_g2o (scalar estimate, 1x1 information)"""
    if getattr(g, "_io_custom_edge", None) is None:
        np_ref = [P.np]

        class DistEdge(g.BaseEdge):
            def calc_error(self):
                d = (self.vertices[0].pose - self.vertices[1].pose).position
                s = 0.0
                for x in d:
                    s = s + x * x
                return np_ref[0].array([s - self.estimate])

            def is_valid(self):
                return self._is_valid()

            def to_g2o(self):
                return "EDGE_DIST {} {} {} {}\n".format(self.vertex_ids[0], self.vertex_ids[1], self.estimate, self.information[0][0])

            @classmethod
            def from_g2o(cls, line, g2o_params_or_none=None):
                if line.startswith("EDGE_DIST "):
                    numbers = line[len("EDGE_DIST ") :].split()
                    f = g.mods["graphslam.vertex"].__dict__.get("float", float)
                    i = g.mods["graphslam.vertex"].__dict__.get("int", int)
                    return cls([i(numbers[0]), i(numbers[1])], np_ref[0].array([[f(numbers[3])]]), f(numbers[2]))
                return None

        g._io_custom_edge = DistEdge
    return g._io_custom_edge
