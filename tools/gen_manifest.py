#!/usr/bin/env python3
"""Regenerates MANIFEST.json from the table below (keeps it valid and in step with the harness modules)."""
import json
import os

HERE = os.path.dirname(os.path.dirname(os.path.abspath(__file__)))

TECH = "bounded symbolic execution of the real graphslam functions on z3 terms (numpy object arrays); obligations decided by z3 5.1 / z3 4.8.12 / z3-checked reduction certificates; counterexamples replayed on float64"
NOTE_COMMON = " Exact real arithmetic unless stated (floating-point rounding outside the claim). Trusted base: z3 (two versions), numpy's own array mechanics, the executor's scalar semantics (validated every run against float64 runs of the same real code), the stub contracts listed in the evidence file."

CHECKS = {
    "C01": ("3.C01", "For all poses/measurements/offsets (all unit quaternions, all angles) the 8 edge kinds' reported Jacobians equal the dual-number derivative of the real calc_error through the real boxplus: a universally quantified verdict per Jacobian entry, not sampling.", "Dual-number rules are the executor's; validated against central differences each run."),
    "C02": ("3.C02", "Real calc_error/calc_chi2/Graph.calc_chi2 proved equal to an independent homogeneous-matrix / Hamilton-product model for all inputs; chi2 quadratic form, Gram/PSD, linearity, graph sum (bounded multisets + fold step).", "Graph sums beyond the bound rest on the fold step."),
    "C03": ("3.C03", "Assembly of b and H, the single solver call and the boxplus update of Graph.optimize(max_iter=1) proved correct for arbitrary symbolic e, J, Omega on enumerated graph structures (mixed dimensions, reversed/parallel/unary/ternary edges, fixed subsets, symbolic ids).", "Structures beyond the enumeration bound are outside; solver numerical quality outside."),
    "C06": ("3.C06", "All paths of Graph.optimize (converged / limit / chi2 increasing / singular solve with unconstrained dx) for max_iter<=3: fixed vertices keep their pose, flags as documented, every linear system has identity/zero blocks for fixed vertices and the reduced problem for free ones.", "Solver stub contract: H dx = rhs when no all-zero row, arbitrary vector otherwise."),
    "C07": ("3.C07", "Errors and Jacobians of all 8 edge kinds proved invariant (Jacobians of point vertices rotate by R_T) under a symbolic rigid transform of all vertices, and boxplus proved left-equivariant: the inductive step for any number of iterations. 4-sphere identities by z3-checked reduction certificates.", "Relies on C03 for assembly/solve depending on vertices only through e, J, boxplus."),
    "C09": ("3.C09", "Group laws of the four pose types proved for all operands against an independent matrix model (homomorphism, ominus definition, inverse, identity, associativity, point action, boxplus = oplus with Pose(delta), += ).", "PoseSE2.from_matrix outside (atan2)."),
    "C10": ("3.C10", "Each of the 12 public jacobian_* methods x 4 pose types proved to be the manifold derivative (dual numbers through the real boxplus) in the documented shape; *_compact = compact rows.", ""),
    "C11": ("3.C11", "SE(2) angle range and congruence mod 2pi for every constructing operation, SE(3) unit-norm preservation for every operation (inductive step), normalize() semantics: all proved for all operands in the real model.", "Accumulated rounding over long chains outside."),
    "C04": ("3.C04", "Real R^2/R^3 odometry and landmark edges through the real optimize with the solver replaced by its contract H dx = rhs: for all initial guesses, measurements, offsets and symmetric information the returned poses are a stationary point of an independently written chi^2 and the reported chi^2 values are that chi^2 (bounded topologies).", "Convexity argument (SPD information, connected, >=1 fixed => stationary point is the unique minimiser) is mathematics outside the solver; sizes beyond the bound outside. Floating-point-only defects are invisible to the real-arithmetic encoding; the far-start cases add float64 validation runs (sampling, not a solver verdict) that start about 1e7 away."),
    "C08": ("3.C08", "Two-run relations proved for all values: block-permuted linear system and identical chi^2 under vertex/edge permutation and id relabelling (symbolic ids), 2*pi*m shifts (symbolic integer m), every quaternion sign pattern (landmark edges and block-diagonal information fully; odometry with full information is the recorded known finding), edge splitting and information scaling.", "The optimisation trajectory is not re-run: equal (permuted/scaled) linear systems plus C03 give equal updates; stopping decisions under scaling are not claimed (the eps in the relative decrease is not scale invariant)."),
    "C13": ("3.C13", "Export followed by import proved field-by-field lossless for two cycles from an arbitrary loaded state (inductive), numbers travelling as tokens with a shortest-repr round-trip contract (any non-empty format spec = lossy); inexpressible content proved to raise; one known finding (programmatic SE(3) landmark edges).", "float()/format() round trip of the interpreter is trusted; text edits of a formatted number yield an unknown value and are concretised by a witness search; the extreme-magnitude cases are float64 validation runs (sampling)."),
    "C14": ("3.C14", "Every vocabulary line parsed to exactly the numbers on it (independent field map) for all values and ids, in file order, with junk/blank lines, separators, CRLF, all six entry points; prefix dispatch of arbitrary strings (<=20 chars) confirmed over all paths by CrossHair with reachability twins.", "Lexical number forms are delegated to builtin float/int by contract; overflow / underflow behaviour is exercised only by the float64 validation runs of the extreme-magnitude cases (sampling)."),
    "C15": ("3.C15", "Every query / operator proved to leave every reachable numeric array, flag, id and order unchanged (termwise) from an arbitrary valid symbolic state, and to return identical results when repeated: one inductive step covering all interleavings; copies independent; optimize() changes only poses and vertices[0].fixed.", "Equality is on exact real terms; bit-level floating point is covered by the IEEE binary64 cases (bit-exact pose restoration, bit-identical repeated numerical Jacobians) on simple error functions only."),
    "C16": ("3.C16", "The real forward-difference fallback proved equal to the dual-number derivative for affine error functions and within an explicit eps*M2/2 bound for the quadratic/rotational ones, shapes and per-vertex order, pose restoration, and n-ary gradient/Hessian contributions, for 5 custom-edge families x 4 pose types.", "NOT decided: equality of optima with exact Jacobians over multi-iteration runs (same obstacle as C05); floating-point cancellation of the quotient."),
    "C17": ("3.C17", "equals of poses, vertices, edges and graphs proved total (never raises) on all ordered kind pairs, False on every structural mismatch for all values, equal to an independent closeness predicate on same-kind pairs, and correct in both directions outside the tolerance band for single-component perturbations.", "SE(3) band on a restricted shape; angle perturbations across the wrap outside."),
    "C18": ("3.C18", "Graph construction with symbolic ids (free edge ids: presence and binding decided by the solver) and symbolic information shape proved to accept exactly the edges satisfying the documented validity predicate, to bind by id, and to raise otherwise, over the enumerated type combinations.", "Information objects represented by their shape only."),
    "C12": ("3.C12", "All control-flow paths of the real optimize for max_iter<=4 with a free chi2 per state and symbolic tol: report fields, stopping rule, update count, verbose-independence and call splitting (all compositions of n<=4) proved against a docstring-derived reference.", "max_iter beyond the bound outside; durations outside."),
}

NOT_APPLICABLE = {
    "C05": "local convergence of iterated Gauss-Newton through a symbolic linear solve (k-fold composition of matrix inverses with sqrt/trig updates, contraction over a neighbourhood) is outside what NRA solving reaches; see DESIGN.md section 4",
}
PENDING = {}


def main():
    checks = []
    for pid in sorted(CHECKS):
        ref, text, note = CHECKS[pid]
        checks.append(
            {
                "property_id": pid,
                "quick_cmd": "bin/check %s --tier quick" % pid,
                "thorough_cmd": "bin/check %s --tier thorough" % pid,
                "evidence_file": "/verif/evidence/%s.json" % pid,
                "replay_cmd_template": "bin/check %s --replay {path}" % pid,
                "engine": "symrun",
                "level_claimed": {"category": "other", "text": "Bounded solver-decided verification of the real code. " + text, "design_ref": "DESIGN.md section " + ref},
                "level_note": (note + NOTE_COMMON).strip(),
                "technique": TECH,
            }
        )
    na = [{"property_id": k, "reason": v} for k, v in sorted({**NOT_APPLICABLE, **{k: v for k, v in PENDING.items() if k not in CHECKS}}.items())]
    man = {
        "version": 1,
        "setup_cmd": "bin/setup",
        "hooks": {
            "guard": "GRAPHSLAM_VERIF",
            "enable": "no hooks are compiled into /repo: the checks import /repo's modules unmodified and rebind module globals (np, lil_matrix, spsolve, time, print, float, int, open) at run time",
            "baseline_off_cmd": "cd /repo && /venv/bin/python -m pytest -q -p no:cacheprovider --timeout=900",
            "source_commits": [],
            "add_only": True,
        },
        "engines": [{"name": "symrun", "path": "/verif/symrun", "serves_properties": sorted(CHECKS), "kind_free_text": "symbolic executor for the real graphslam code: z3-backed scalars in numpy object arrays, exhaustive path exploration, solver portfolio (z3 5.1, z3 4.8.12, reduction certificates), float64 encoding validation and counterexample replay"}],
        "checks": checks,
        "not_applicable": na,
        "notes": "Exit codes of bin/check: 0 all obligations discharged; 1 reproduced violation (VIOLATION line); 2 inconclusive (solver unknown / unsupported construct / non-reproducing model) - never reported as success. Known findings: known_findings.json.",
    }
    with open(os.path.join(HERE, "MANIFEST.json"), "w") as f:
        json.dump(man, f, indent=1)
        f.write("\n")


if __name__ == "__main__":
    main()
