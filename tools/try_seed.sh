#!/bin/sh
# usage: tools/try_seed.sh <property> <dir with patch.diff demo.py> [tier]
# Confirms a seeded change in a scratch worktree (patch applies, demo passes without / fails with it, test-suite passes with it)
# and runs the property's check against the patched scratch tree (VERIF_REPO), never touching /repo.
prop="$1"; dir="$2"; tier="${3:-quick}"
wt="/tmp/tryseed_$$"
git -C /repo worktree add -q --detach "$wt" HEAD || exit 9
export VERIF_SCRATCH="/tmp/verif_scratch_$$"
cleanup() { git -C /repo worktree remove --force "$wt" >/dev/null 2>&1; rm -rf "$VERIF_SCRATCH"; }
trap cleanup EXIT
( cd "$wt" && GS_ROOT="$wt" /venv/bin/python "$dir/demo.py" >/dev/null 2>&1 ); d0=$?
git -C "$wt" apply "$dir/patch.diff" || { echo "PATCH DOES NOT APPLY"; exit 8; }
( cd "$wt" && GS_ROOT="$wt" /venv/bin/python "$dir/demo.py" >/dev/null 2>&1 ); d1=$?
if [ "${SKIP_TESTS:-0}" = "1" ]; then t="skipped"; else
t=$( cd "$wt" && /venv/bin/python -m pytest -q -p no:cacheprovider -n 6 --timeout=900 2>&1 | tail -1 ); fi
echo "demo_without_patch_exit=$d0 demo_with_patch_exit=$d1 tests='$t'"
start=$(date +%s)
( cd /verif && VERIF_REPO="$wt" bin/check "$prop" --tier "$tier" 2>&1 | grep -E "^C[0-9]+ tier|VIOLATION|KNOWN-FINDING|INCONCLUSIVE" | cut -c1-400 | head -12 ); 
echo "check_seconds=$(( $(date +%s) - start ))"
