#!/bin/sh
# runs every thorough check once, sequentially, printing its summary line and wall time
cd "$(dirname "$0")/.."
for p in ${@:-C01 C02 C03 C04 C06 C07 C08 C09 C10 C11 C12 C13 C14 C15 C16 C17 C18}; do
  s=$(date +%s)
  bin/check $p --tier thorough 2>&1 | grep -E "^C[0-9]+ tier|VIOLATION|INCONCLUSIVE|KNOWN-FINDING" | cut -c1-300 | head -8
  echo "$p exit=$? seconds=$(( $(date +%s) - s ))"
done
