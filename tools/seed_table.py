#!/usr/bin/env python3
"""prints the markdown table of seeded changes (from seeded/*/meta.json) for DESIGN.md"""
import glob, json, os
here = os.path.dirname(os.path.dirname(os.path.abspath(__file__)))
print("| seed | property | what was changed | needs | verdict of the check |")
print("|---|---|---|---|---|")
for d in sorted(glob.glob(os.path.join(here, "seeded", "*"))):
    try:
        m = json.load(open(os.path.join(d, "meta.json")))
    except Exception:
        continue
    def cut(s, n):
        s = " ".join(str(s).split())
        return s if len(s) <= n else s[: n - 1] + "…"
    extra = m.get("caught_by", "")
    print("| %s | %s | %s | %s | %s%s |" % (os.path.basename(d), m.get("property"), cut(m.get("summary", ""), 170).replace("|", "/"), cut(m.get("needs", ""), 150).replace("|", "/"), m.get("check_verdict"), (" (" + extra + ")") if extra else ""))
