#!/bin/sh
# re-runs every kept seeded change against the current checks (scratch worktrees, never /repo); prints one line per seed
cd "$(dirname "$0")/.."
# usage: tools/rerun_seeds.sh [glob of seed names, default *]
for d in seeded/${1:-*}/; do
  name=$(basename "$d")
  prop=$(python3 -c "import json;print(json.load(open('$d/meta.json'))['property'])")
  chk=$prop
  case "$name" in C08-m2|C08-m6) chk=C12;; C08-m7) chk=C14;; C07-m9) chk=C03;; esac
  out=$(SKIP_TESTS=1 VERIF_CASE_BUDGET_S=${VERIF_CASE_BUDGET_S:-200} timeout 2400 tools/try_seed.sh $chk "$PWD/$d" quick 2>&1)
  v=$(echo "$out" | grep -c "^VIOLATION")
  i=$(echo "$out" | grep -c "^INCONCLUSIVE")
  echo "$name check=$chk violations=$v inconclusive=$i $(echo "$out" | grep check_seconds)"
done
