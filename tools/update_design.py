#!/usr/bin/env python3
"""refreshes the generated parts of DESIGN.md (seed table between the SEED_TABLE markers)"""
import os, re, subprocess
here = os.path.dirname(os.path.dirname(os.path.abspath(__file__)))
p = os.path.join(here, "DESIGN.md")
s = open(p).read()
table = subprocess.run(["python3", os.path.join(here, "tools", "seed_table.py")], capture_output=True, text=True).stdout
b, e = "<!-- SEED_TABLE_BEGIN -->", "<!-- SEED_TABLE_END -->"
if b in s:
    s = s[: s.index(b) + len(b)] + "\n" + table + s[s.index(e):]
else:
    # first time: wrap the existing table
    m = re.search(r"\| seed \| property \|.*?\n\n", s, re.S)
    s = s[: m.start()] + b + "\n" + table + e + "\n\n" + s[m.end():]
open(p, "w").write(s)
