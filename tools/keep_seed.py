#!/usr/bin/env python3
"""usage: tools/keep_seed.py <property> <src dir> <seed name> [tier]
Confirms a seeded change with tools/try_seed.sh and stores it under /verif/seeded/<name>/ with what was run and observed."""
import json, os, shutil, subprocess, sys

prop, src, name = sys.argv[1:4]
tier = sys.argv[4] if len(sys.argv) > 4 else "quick"
here = os.path.dirname(os.path.dirname(os.path.abspath(__file__)))
out = subprocess.run([os.path.join(here, "tools", "try_seed.sh"), prop, src, tier], capture_output=True, text=True).stdout
print(out)
dst = os.path.join(here, "seeded", name)
os.makedirs(dst, exist_ok=True)
for f in ("patch.diff", "demo.py"):
    shutil.copy(os.path.join(src, f), os.path.join(dst, f))
meta = {}
try:
    meta = json.load(open(os.path.join(src, "meta.json")))
except Exception:
    pass
first = out.splitlines()[0] if out.strip() else ""
viol = [l for l in out.splitlines() if l.startswith("VIOLATION")]
inc = [l for l in out.splitlines() if l.startswith("INCONCLUSIVE")]
meta.update(
    {
        "property": prop,
        "confirmed": first,
        "ran": ["tools/try_seed.sh %s <dir> %s  (scratch worktree of /repo HEAD: demo.py without patch, git apply patch.diff, demo.py with patch, pytest -n 6, then VERIF_REPO=<worktree> bin/check %s --tier %s)" % (prop, tier, prop, tier)],
        "check_verdict": "caught" if viol else ("inconclusive" if inc else "missed"),
        "check_output": [l[:300] for l in out.splitlines() if l.startswith(("C", "VIOLATION", "INCONCLUSIVE", "KNOWN"))][:8],
    }
)
json.dump(meta, open(os.path.join(dst, "meta.json"), "w"), indent=1)
print("stored", dst, meta["check_verdict"])
