#!/venv/bin/python
"""Concrete (float64, unpatched package) runner used for replay / validation; runs under /venv/bin/python."""
import os
import sys

sys.dont_write_bytecode = True
sys.path.insert(0, os.path.dirname(os.path.dirname(os.path.abspath(__file__))))
from symrun.runner import concrete_main  # noqa

concrete_main(sys.argv[1])
