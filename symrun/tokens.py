"""Numbers travel through formatted text (.g2o files, printed reports) as placeholder tokens.

``format(x, spec)`` of an engine scalar yields a unique token; the stubbed ``float``/``int`` of the parsing modules
resolve tokens back to the value.  Contract (CPython/numpy shortest-repr round trip): with an EMPTY format spec
``float(format(x, '')) == x`` and ``int(format(i, '')) == i``; a non-empty spec is treated as lossy: the parsed value is
a fresh unconstrained number, so that any dependence on it shows up as a failed obligation.
"""
import builtins

import z3

from .scalars import CTX, Sym, SymInt


def make_token(value, spec):
    tok = "@T%d@" % (len(CTX.tokens) + 1)
    CTX.tokens[tok] = (value, spec)
    return tok


def sym_float(s):
    if isinstance(s, (Sym,)):
        return s
    if isinstance(s, SymInt):
        return Sym.lift(s)
    if isinstance(s, str):
        key = s.strip()
        if key in CTX.tokens:
            value, spec = CTX.tokens[key]
            if spec not in ("", None):
                v = z3.Real(CTX.fresh("lossy"))
                if CTX.shadow is not None:
                    CTX.shadow[str(v)] = float("nan")
                return Sym(v)
            return Sym.lift(value)
    return builtins.float(s)


def sym_int(s, *a):
    if isinstance(s, SymInt):
        return s
    if isinstance(s, Sym):
        r = s.__int__()  # int(float) of a symbolic value (SymInt when it is an integer that travelled through a double)
        return r
    if isinstance(s, str):
        key = s.strip()
        if key in CTX.tokens:
            value, spec = CTX.tokens[key]
            if isinstance(value, SymInt) and spec in ("", None):
                return value
            raise ValueError("invalid literal for int() with base 10: %r" % s)
    return builtins.int(s, *a)

