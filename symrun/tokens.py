"""Numbers travel through formatted text (.g2o files, printed reports) as placeholder tokens.

``format(x, spec)`` of an engine scalar yields a unique token; the stubbed ``float``/``int`` of the parsing modules
resolve tokens back to the value.  Contract (CPython/numpy shortest-repr round trip): with an EMPTY format spec
``float(format(x, '')) == x`` and ``int(format(i, '')) == i``; a non-empty spec is treated as lossy: the parsed value is
a fresh unconstrained number, so that any dependence on it shows up as a failed obligation.
"""
import builtins

import z3

from .scalars import CTX, Sym, SymInt


class TokStr(str):
    """the text of one formatted number.  Whitespace handling leaves it alone; an operation that edits its characters
    (stripping digits, replacing, slicing) yields the text of an UNKNOWN number (a lossy token), because the digits a
    double prints as are behind the C boundary of this model"""

    def _edited(self, how):
        value, _spec = CTX.tokens.get(str(self), (None, None))
        return make_token(value, "edited:" + how)

    @staticmethod
    def _blank(chars):
        return chars is None or all(c.isspace() for c in chars)

    def strip(self, chars=None):
        return self if TokStr._blank(chars) else self._edited("strip")

    def rstrip(self, chars=None):
        return self if TokStr._blank(chars) else self._edited("rstrip")

    def lstrip(self, chars=None):
        return self if TokStr._blank(chars) else self._edited("lstrip")

    def replace(self, old, new, *a):
        return self if (old and old.isspace()) else self._edited("replace")

    def __getitem__(self, k):
        if isinstance(k, slice) and k == slice(None, None, None):
            return self
        return self._edited("slice")

    def removeprefix(self, p):
        return self._edited("removeprefix")

    def removesuffix(self, p):
        return self._edited("removesuffix")

    def zfill(self, n):
        return self._edited("zfill")


def make_token(value, spec):
    tok = TokStr("@T%d@" % (len(CTX.tokens) + 1))
    CTX.tokens[str(tok)] = (value, spec)
    return tok


def sym_float(s):
    if isinstance(s, (Sym,)):
        return s
    if isinstance(s, SymInt):
        return Sym.lift(s)
    if isinstance(s, str):
        key = str(s).strip()
        if key in CTX.tokens:
            value, spec = CTX.tokens[key]
            if spec not in ("", None):
                v = z3.Real(CTX.fresh("lossy"))
                if CTX.shadow is not None:
                    CTX.shadow[str(v)] = float("nan")
                return Sym(v)
            return Sym.lift(value)
    return builtins.float(s)


def sym_int(s, *a):
    if isinstance(s, SymInt):
        return s
    if isinstance(s, Sym):
        r = s.__int__()  # int(float) of a symbolic value (SymInt when it is an integer that travelled through a double)
        return r
    if isinstance(s, str):
        key = str(s).strip()
        if key in CTX.tokens:
            value, spec = CTX.tokens[key]
            if isinstance(value, SymInt) and spec in ("", None):
                return value
            raise ValueError("invalid literal for int() with base 10: %r" % s)
    return builtins.int(s, *a)

