"""Float evaluation of z3 terms under a valuation (used for encoding validation: the symbolic executor is run on
one concrete valuation, every branch is decided by evaluation instead of forking, and the resulting terms are
compared with a plain float64 run of the same real code)."""
import math

import z3


class ShadowError(Exception):
    pass


def evalf(t, val, memo=None):
    if memo is None:
        memo = {}
    tid = t.get_id()
    if tid in memo:
        return memo[tid]
    r = _evalf(t, val, memo)
    memo[tid] = r
    return r


def _evalf(t, val, memo):
    if z3.is_rational_value(t):
        return t.numerator_as_long() / t.denominator_as_long()
    if z3.is_int_value(t):
        return t.as_long()
    if z3.is_true(t):
        return True
    if z3.is_false(t):
        return False
    if z3.is_const(t) and t.decl().kind() == z3.Z3_OP_UNINTERPRETED:
        n = str(t)
        if n not in val:
            raise ShadowError("no value for %s" % n)
        return val[n]
    k = t.decl().kind()
    ch = [evalf(c, val, memo) for c in t.children()]
    if k == z3.Z3_OP_ADD:
        return sum(ch)
    if k == z3.Z3_OP_SUB:
        r = ch[0]
        for c in ch[1:]:
            r = r - c
        return r
    if k == z3.Z3_OP_UMINUS:
        return -ch[0]
    if k == z3.Z3_OP_MUL:
        r = ch[0]
        for c in ch[1:]:
            r = r * c
        return r
    if k == z3.Z3_OP_DIV:
        if ch[1] == 0:
            return float("nan")
        return ch[0] / ch[1]
    if k == z3.Z3_OP_POWER:
        return ch[0] ** ch[1]
    if k == z3.Z3_OP_TO_REAL:
        return float(ch[0])
    if k == z3.Z3_OP_TO_INT:
        return math.floor(ch[0])
    if k == z3.Z3_OP_LT:
        return ch[0] < ch[1]
    if k == z3.Z3_OP_LE:
        return ch[0] <= ch[1]
    if k == z3.Z3_OP_GT:
        return ch[0] > ch[1]
    if k == z3.Z3_OP_GE:
        return ch[0] >= ch[1]
    if k == z3.Z3_OP_EQ:
        return ch[0] == ch[1]
    if k == z3.Z3_OP_DISTINCT:
        return len(set(ch)) == len(ch)
    if k == z3.Z3_OP_NOT:
        return not ch[0]
    if k == z3.Z3_OP_AND:
        return all(ch)
    if k == z3.Z3_OP_OR:
        return any(ch)
    if k == z3.Z3_OP_XOR:
        return bool(ch[0]) != bool(ch[1])
    if k == z3.Z3_OP_IMPLIES:
        return (not ch[0]) or ch[1]
    if k == z3.Z3_OP_ITE:
        return ch[1] if ch[0] else ch[2]
    raise ShadowError("cannot evaluate %s" % t.decl())
