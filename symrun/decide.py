"""Deciding obligations:  assumptions => goal  is checked as  assumptions /\\ not goal.

Routes, in order: syntactic identity, z3 5.1 (python API, fresh non-incremental solver), z3 4.8.12 binary on the
SMT-LIB2 rendering of the same query, reduction certificate (poly.py) for polynomial identities modulo v*v==rhs
constraints.  'unknown' everywhere => the obligation is NOT discharged.
"""
import os
import re
import subprocess
import tempfile
import time
from fractions import Fraction

import z3

from . import poly
from .paths import cone, vars_of

OLD_Z3 = "/usr/bin/z3"


class Result:
    def __init__(self, status, route, secs, model=None, info=None):
        self.status = status  # 'proved' | 'refuted' | 'unknown'
        self.route = route
        self.secs = secs
        self.model = model  # dict name -> float/int (for refuted)
        self.info = info or {}

    def __repr__(self):
        return "Result(%s via %s in %.2fs)" % (self.status, self.route, self.secs)


def _num(v):
    if z3.is_int_value(v):
        return v.as_long()
    if z3.is_rational_value(v):
        return float(Fraction(v.numerator_as_long(), v.denominator_as_long()))
    if z3.is_algebraic_value(v):
        a = v.approx(20)
        return float(Fraction(a.numerator_as_long(), a.denominator_as_long()))
    if z3.is_true(v):
        return True
    if z3.is_false(v):
        return False
    if z3.is_fp_value(v):
        from .fp import fp_to_float

        return fp_to_float(v)
    return None


def model_to_dict(m):
    out = {}
    for d in m.decls():
        if d.arity() != 0:
            continue
        val = _num(m[d])
        if val is not None:
            out[d.name()] = val
    return out


def solve_new(assertions, timeout_s):
    s = z3.Solver()
    s.set("timeout", int(timeout_s * 1000))
    for a in assertions:
        s.add(a)
    r = s.check()
    if r == z3.sat:
        return "sat", model_to_dict(s.model())
    if r == z3.unsat:
        return "unsat", None
    return "unknown", None


# ---- old z3 binary ---------------------------------------------------------------------------
_TOK = re.compile(r"\(|\)|[^\s()]+")


def _parse_sexprs(text):
    toks = _TOK.findall(text)
    pos = 0

    def rd():
        nonlocal pos
        t = toks[pos]
        pos += 1
        if t == "(":
            lst = []
            while toks[pos] != ")":
                lst.append(rd())
            pos += 1
            return lst
        return t

    out = []
    while pos < len(toks):
        out.append(rd())
    return out


def _eval_sexpr(e):
    if isinstance(e, str):
        if e == "true":
            return True
        if e == "false":
            return False
        return float(e.rstrip("?"))
    op = e[0]
    if op == "-":
        if len(e) == 2:
            return -_eval_sexpr(e[1])
        return _eval_sexpr(e[1]) - _eval_sexpr(e[2])
    if op == "/":
        return _eval_sexpr(e[1]) / _eval_sexpr(e[2])
    if op == "+":
        return sum(_eval_sexpr(x) for x in e[1:])
    if op == "*":
        r = 1.0
        for x in e[1:]:
            r *= _eval_sexpr(x)
        return r
    if op == "to_real":
        return float(_eval_sexpr(e[1]))
    raise ValueError("cannot evaluate %r" % (e,))


def solve_old(assertions, timeout_s, logic=None):
    """same query through /usr/bin/z3 4.8.12; any '(error' line => unknown"""
    s = z3.Solver()
    for a in assertions:
        s.add(a)
    text = s.to_smt2()
    text = text.replace("(check-sat)", "")
    hdr = "(set-option :pp.decimal true)\n(set-option :pp.decimal_precision 20)\n"
    if logic:
        hdr += "(set-logic %s)\n" % logic
    text = hdr + text + "\n(check-sat)\n(get-model)\n"
    fd, path = tempfile.mkstemp(suffix=".smt2", prefix="verifq_")
    dump = os.environ.get("VERIF_DUMP_SMT2")
    if dump:
        # debugging aid: keep a copy of every query handed to the external solver
        os.makedirs(dump, exist_ok=True)
        with open(os.path.join(dump, os.path.basename(path)), "w") as f:
            f.write(text)
    try:
        with os.fdopen(fd, "w") as f:
            f.write(text)
        try:
            p = subprocess.run([OLD_Z3, "-T:%d" % max(1, int(timeout_s)), path], capture_output=True, text=True, timeout=timeout_s + 10)
        except subprocess.TimeoutExpired:
            return "unknown", None
        out = p.stdout
    finally:
        try:
            os.unlink(path)
        except OSError:
            pass
    first = out.strip().split("\n", 1)[0].strip() if out.strip() else ""
    if first == "unsat":
        # the (get-model) after unsat prints an error line; that one is expected
        rest = out.strip().split("\n", 1)[1] if "\n" in out.strip() else ""
        errs = [l for l in rest.splitlines() if "(error" in l and "model is not available" not in l]
        if errs:
            return "unknown", None
        return "unsat", None
    if first == "sat":
        if "(error" in out:
            return "unknown", None
        model = {}
        try:
            body = out.strip().split("\n", 1)[1]
            for top in _parse_sexprs(body):
                items = top[1:] if top and top[0] == "model" else top
                for it in items:
                    if isinstance(it, list) and it and it[0] == "define-fun" and it[2] == []:
                        try:
                            model[it[1]] = _eval_sexpr(it[4])
                        except Exception:
                            pass
        except Exception:
            return "unknown", None
        for k, v in list(model.items()):
            if isinstance(v, float) and v.is_integer() and k.startswith(("k!", "id", "m_")):
                pass
        return "sat", model
    return "unknown", None


def _has_int_var(t):
    seen = set()
    stack = [t]
    while stack:
        x = stack.pop()
        i = x.get_id()
        if i in seen:
            continue
        seen.add(i)
        if z3.is_const(x):
            if x.decl().kind() == z3.Z3_OP_UNINTERPRETED and z3.is_int(x):
                return True
        else:
            stack.extend(x.children())
    return False


def int_combo_hints(lhs, rhs):
    """If lhs - rhs is linear in integer variables k_i with coefficients c*n_i (n_i integers), name the integer
    combination  n = sum n_i k_i  with a fresh variable.  A definition of a fresh variable is conservative; it lets
    the LIA engine branch on the combination (without it z3 answers 'unknown' on congruence-mod-2pi goals)."""
    if not (_has_int_var(lhs) or _has_int_var(rhs)):
        return []
    try:
        red = poly.Reducer({}, max_terms=20000)
        d = poly.p_add(red.nf(lhs), red.nf(rhs), -1)
    except poly.NotPolynomial:
        return []
    lin = []
    for m, c in d.items():
        its = poly.m_items(m)
        if len(its) == 1 and its[0][1] == 1:
            zt = red.int_vars.get(its[0][0])
            if zt is not None:
                lin.append((zt, c))
    if len(lin) < 2:
        return []
    c0 = lin[0][1]
    ratios = [Fraction(c) / Fraction(c0) for _v, c in lin]
    if any(r.denominator != 1 for r in ratios):
        return []
    n = z3.Int("ncombo!%d" % (abs(hash(str(lhs.hash()) + str(rhs.hash()))) % 10**9))
    return [n == z3.Sum([int(r) * v for (v, _c), r in zip(lin, ratios)])]


# ---- public API --------------------------------------------------------------------------------
def prove(goal, assumptions, timeout_s=10, old_timeout_s=20, eq=None, rules=None, use_cone=True, try_old=True, cert_first=False):
    """decide  assumptions => goal.

    eq: optional (lhs, rhs) z3 terms when goal is lhs == rhs (enables the syntactic and certificate routes)
    rules: reducer rewrite rules (CTX.rules snapshot)
    """
    t0 = time.time()
    if eq is not None and eq[0].eq(eq[1]):
        return Result("proved", "syntactic", 0.0)
    g = z3.simplify(goal)
    if z3.is_true(g):
        return Result("proved", "simplify", time.time() - t0)
    ng = z3.Not(goal)
    base = cone([ng], assumptions) if use_cone else list(assumptions)
    if use_cone and not vars_of(ng):
        base = list(assumptions)  # a constant goal: the claim is about the feasibility of the whole path
    dropped = len(base) < len(assumptions)
    info = {}

    def complete(model, route):
        """a model found under the cone of influence ignores the dropped assumptions: re-solve with all of them so
        that the reported counterexample satisfies every assumption (or the path turns out to be infeasible)"""
        if not dropped:
            return Result("refuted", route, time.time() - t0, model=model, info=info)
        st2, m2 = solve_new(list(assumptions) + [ng], max(2.0, timeout_s))
        if st2 == "unsat":
            return Result("proved", route + "+infeasible-path", time.time() - t0, info=info)
        return Result("refuted", route, time.time() - t0, model=m2 if st2 == "sat" else model, info=info)
    if eq is not None:
        base = base + int_combo_hints(eq[0], eq[1])

    def cert():
        if eq is None or rules is None:
            return None
        st, ci = poly.certificate(eq[0], eq[1], rules)
        info["certificate"] = {k: v for k, v in ci.items() if k != "nf"}
        info["certificate"]["status"] = st
        if st == "proved":
            return Result("proved", "certificate", time.time() - t0, info=info)
        return None

    tried_cert = False
    if cert_first:
        tried_cert = True
        r = cert()
        if r:
            return r
    # escalating schedule: quick attempts on both solver versions, then the certificate, then the full budgets
    schedule = [("new", min(2.0, timeout_s))]
    if try_old:
        schedule.append(("old", min(5.0, old_timeout_s)))
    schedule.append(("cert", 0))
    if timeout_s > 2.0:
        schedule.append(("new", timeout_s))
    if try_old and old_timeout_s > 5.0:
        schedule.append(("old", old_timeout_s))
    for which, tmo in schedule:
        if which == "cert":
            if not tried_cert:
                tried_cert = True
                r = cert()
                if r:
                    return r
            continue
        if which == "new":
            st, model = solve_new(base + [ng], tmo)
            route = "z3-5.1"
        else:
            st, model = solve_old(base + [ng], tmo)
            route = "z3-4.8.12"
        if st == "unsat":
            return Result("proved", route, time.time() - t0, info=info)
        if st == "sat":
            return complete(model, route)
    return Result("unknown", "none", time.time() - t0, info=info)


def satisfiable(assertions, timeout_s=10):
    st, model = solve_new(assertions, timeout_s)
    if st == "unknown":
        st, model = solve_old(assertions, timeout_s)
    return st, model
