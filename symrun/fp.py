"""IEEE-754 binary64 scalars (z3 FloatingPoint terms, round-to-nearest-even) for the few kernels where rounding is
the subject: the SE(2) angle wrap and bit-exact restoration of poses.

Semantics: + - * / sqrt neg abs and comparisons are z3's exact IEEE operations.  ``%`` follows numpy's float
remainder (``mod = fmod(a, b); if mod != 0 and sign differs: mod += b``) with C ``fmod`` as a CONTRACT stub
(fresh value r with |r| < |b|, r = 0 or sign(r) = sign(a), r = a when |a| < |b|); cos / sin are uninterpreted.
"""
import math
import struct

import numpy as _np
import z3

from .scalars import CTX, SymBool, Unsupported, is_num

F64 = z3.Float64()
RNE = z3.RNE()


def fpval(x):
    return z3.FPVal(float(x), F64)


class SymFP:
    __slots__ = ("f",)

    def __init__(self, f):
        self.f = f

    @staticmethod
    def lift(x):
        if isinstance(x, SymFP):
            return x
        if is_num(x):
            return SymFP(fpval(x))
        return None

    def _bin(self, o, op):
        if isinstance(o, _np.ndarray):
            return NotImplemented
        o = SymFP.lift(o)
        if o is None:
            return NotImplemented
        return SymFP(op(self.f, o.f))

    def __add__(self, o):
        return self._bin(o, lambda a, b: z3.fpAdd(RNE, a, b))

    __radd__ = __add__

    def __sub__(self, o):
        return self._bin(o, lambda a, b: z3.fpSub(RNE, a, b))

    def __rsub__(self, o):
        return self._bin(o, lambda a, b: z3.fpSub(RNE, b, a))

    def __mul__(self, o):
        return self._bin(o, lambda a, b: z3.fpMul(RNE, a, b))

    __rmul__ = __mul__

    def __truediv__(self, o):
        return self._bin(o, lambda a, b: z3.fpDiv(RNE, a, b))

    def __rtruediv__(self, o):
        return self._bin(o, lambda a, b: z3.fpDiv(RNE, b, a))

    def __neg__(self):
        return SymFP(z3.fpNeg(self.f))

    def __pos__(self):
        return self

    def __abs__(self):
        return SymFP(z3.fpAbs(self.f))

    def __pow__(self, n):
        if is_num(n) and float(n) == int(n) and int(n) >= 1:
            r = self
            for _ in range(int(n) - 1):
                r = r * self
            return r
        raise Unsupported("FP power %r" % (n,))

    def sqrt(self):
        return SymFP(z3.fpSqrt(RNE, self.f))

    def __floor__(self):
        return SymFP(z3.fpRoundToIntegral(z3.RTN(), self.f))

    def _unary_uf(self, name):
        key = (name, self.f.get_id())
        if key not in CTX.sqrt_memo:
            CTX.keep.append(self.f)
            r = z3.FP(CTX.fresh(name), F64)
            one = fpval(1.0)
            CTX.cons.append(z3.And(z3.fpLEQ(z3.fpNeg(one), r), z3.fpLEQ(r, one)))
            CTX.sqrt_memo[key] = r
        return SymFP(CTX.sqrt_memo[key])

    def cos(self):
        return self._unary_uf("fpcos")

    def sin(self):
        return self._unary_uf("fpsin")

    def __mod__(self, m):
        m = SymFP.lift(m)
        if m is None:
            raise Unsupported("FP modulo by a non-number")
        key = ("fpmod", self.f.get_id(), m.f.get_id())
        if key not in CTX.sqrt_memo:
            CTX.keep.extend([self.f, m.f])
            a, b = self.f, m.f
            r = z3.FP(CTX.fresh("fmod"), F64)
            zero = fpval(0.0)
            # contract of C fmod for finite a and finite non-zero b
            CTX.cons.append(z3.Not(z3.fpIsNaN(r)))
            CTX.cons.append(z3.fpLT(z3.fpAbs(r), z3.fpAbs(b)))
            CTX.cons.append(z3.Or(z3.fpIsZero(r), z3.fpIsNegative(r) == z3.fpIsNegative(a)))
            CTX.cons.append(z3.Implies(z3.fpLT(z3.fpAbs(a), z3.fpAbs(b)), r == a))
            CTX.cons.append(z3.Implies(z3.fpIsZero(a), z3.fpIsZero(r)))
            # numpy: if mod != 0 and (b < 0) != (mod < 0): mod += b ; if mod == 0: copysign(0, b)
            adj = z3.If(
                z3.fpIsZero(r),
                z3.If(z3.fpIsNegative(b), z3.fpNeg(fpval(0.0)), zero),
                z3.If(z3.fpLT(b, zero) != z3.fpLT(r, zero), z3.fpAdd(RNE, r, b), r),
            )
            CTX.sqrt_memo[key] = adj
        return SymFP(CTX.sqrt_memo[key])

    # comparisons (IEEE: false on NaN)
    def _cmp(self, o, op):
        o = SymFP.lift(o)
        if o is None:
            return NotImplemented
        b = z3.simplify(op(self.f, o.f))
        if z3.is_true(b):
            return True
        if z3.is_false(b):
            return False
        return SymBool(b)

    def __lt__(self, o):
        return self._cmp(o, z3.fpLT)

    def __le__(self, o):
        return self._cmp(o, z3.fpLEQ)

    def __gt__(self, o):
        return self._cmp(o, z3.fpGT)

    def __ge__(self, o):
        return self._cmp(o, z3.fpGEQ)

    def __eq__(self, o):
        if isinstance(o, _np.ndarray):
            return NotImplemented
        r = self._cmp(o, z3.fpEQ)
        return False if r is NotImplemented else r

    def __ne__(self, o):
        if isinstance(o, _np.ndarray):
            return NotImplemented
        r = self._cmp(o, lambda a, b: z3.Not(z3.fpEQ(a, b)))
        return True if r is NotImplemented else r

    __hash__ = object.__hash__

    def __bool__(self):
        return bool(self != 0.0)

    def __float__(self):
        s = z3.simplify(self.f)
        if z3.is_fp_value(s):
            return fp_to_float(s)
        raise Unsupported("float() of a symbolic double")

    def __format__(self, spec):
        return format(float(self), spec)

    def __repr__(self):
        return "SymFP(%s)" % (self.f.sexpr()[:80],)


def same_bits(a, b):
    """bit-identical (z3 '=' on the FP sort: +0 and -0 differ, NaN excluded by the callers' finiteness assumptions)"""
    a, b = SymFP.lift(a), SymFP.lift(b)
    c = z3.simplify(a.f == b.f)
    if z3.is_true(c):
        return True
    if z3.is_false(c):
        return False
    return SymBool(c)


def fp_to_float(v):
    """exact conversion of a z3 FP numeral to a Python float"""
    if v.isNaN():
        return float("nan")
    if v.isInf():
        return -math.inf if v.isNegative() else math.inf
    sign = 1 if v.isNegative() else 0
    e = v.exponent_as_long(True)
    m = v.significand_as_long()
    bits = (sign << 63) | (e << 52) | m
    return struct.unpack("<d", struct.pack("<Q", bits))[0]
