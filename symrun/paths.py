"""Exhaustive depth-first path exploration by re-execution with a decision prefix."""
import time

import z3

from .scalars import CTX, Infeasible

_VARS_MEMO = {}


def vars_of(term):
    """set of free constant names of a z3 term (memoised on AST id)"""
    tid = term.get_id()
    r = _VARS_MEMO.get(tid)
    if r is not None:
        return r[1]
    out = set()
    seen = set()
    stack = [term]
    while stack:
        t = stack.pop()
        i = t.get_id()
        if i in seen:
            continue
        seen.add(i)
        if z3.is_const(t):
            if t.decl().kind() == z3.Z3_OP_UNINTERPRETED:
                out.add(str(t))
        else:
            stack.extend(t.children())
    _VARS_MEMO[tid] = (term, out)
    return out


def cone(goal_terms, cons):
    """constraints transitively sharing variables with the goal terms"""
    need = set()
    for g in goal_terms:
        need |= vars_of(g)
    pool = [(c, vars_of(c)) for c in cons]
    picked = []
    changed = True
    while changed:
        changed = False
        rest = []
        for c, vs in pool:
            if vs & need:
                picked.append(c)
                if not vs <= need:
                    need |= vs
                    changed = True
            else:
                rest.append((c, vs))
        pool = rest
    return picked


STATS = {"feas_queries": 0, "feas_unknown": 0, "feas_s": 0.0}


def feasible(assertions, timeout_ms=2000):
    """True unless z3 proves the conjunction unsatisfiable (unknown counts as feasible)"""
    t0 = time.time()
    s = z3.Solver()
    s.set("timeout", timeout_ms)
    for a in assertions:
        s.add(a)
    r = s.check()
    STATS["feas_queries"] += 1
    STATS["feas_s"] += time.time() - t0
    if r == z3.unknown:
        STATS["feas_unknown"] += 1
    return r != z3.unsat


class Path:
    def __init__(self, prefix, explorer):
        self.prefix = list(prefix)
        self.decisions = []
        self.pc = []
        self.explorer = explorer
        self.forced = 0

    def _known(self, c):
        for p in self.pc:
            if p.eq(c):
                return True
            if z3.is_not(p) and p.arg(0).eq(c):
                return False
            if z3.is_not(c) and c.arg(0).eq(p):
                return False
        return None

    def decide(self, cond):
        c = z3.simplify(cond)
        if z3.is_true(c):
            return True
        if z3.is_false(c):
            return False
        k = self._known(c)
        if k is not None:
            return k
        i = len(self.decisions)
        if CTX.shadow is not None:
            from .shadow import evalf

            val = bool(evalf(c, CTX.shadow))
        elif i < len(self.prefix):
            val = self.prefix[i]
        else:
            base = cone([c], CTX.cons + self.pc)
            ft = feasible(base + [c], self.explorer.feas_timeout_ms)
            ff = feasible(base + [z3.Not(c)], self.explorer.feas_timeout_ms)
            if ft and ff:
                val = self.explorer.first_choice
                self.explorer.push(self.decisions + [not val])
            elif ft:
                val = True
                self.forced += 1
            elif ff:
                val = False
                self.forced += 1
            else:
                raise Infeasible()
        self.decisions.append(val)
        self.pc.append(c if val else z3.Not(c))
        if len(self.decisions) > self.explorer.max_depth:
            raise RuntimeError("path depth bound exceeded")
        return val


class Explorer:
    def __init__(self, feas_timeout_ms=2000, max_paths=100000, max_depth=400, first_choice=True):
        self.work = []
        self.feas_timeout_ms = feas_timeout_ms
        self.max_paths = max_paths
        self.max_depth = max_depth
        self.first_choice = first_choice
        self.paths = 0
        self.infeasible = 0
        self.deadline = None
        self.truncated = False

    def push(self, prefix):
        self.work.append(prefix)

    def run(self, fn, shadow=None):
        """run fn() once per feasible path; yields (path, result).  With ``shadow`` (a valuation) a single
        path is run and every branch is decided by evaluation."""
        self.work = [[]]
        while self.work:
            if self.deadline is not None and time.time() > self.deadline and shadow is None:
                self.truncated = True
                break
            prefix = self.work.pop()
            CTX.reset()
            if shadow is not None:
                CTX.shadow = dict(shadow)
            _VARS_MEMO.clear()
            p = Path(prefix, self)
            CTX.path = p
            try:
                res = fn()
            except Infeasible:
                self.infeasible += 1
                continue
            self.paths += 1
            if self.paths > self.max_paths:
                raise RuntimeError("path bound exceeded")
            yield p, res
