"""Engine scalars for symbolic execution of the real graphslam code on numpy object arrays.

Sym      real-valued scalar: exact rational constant or z3 Real term, optional tangent (dual number),
         optional angle decomposition (integer combination of base angles, pi and a numeric constant).
SymBool  z3 Bool; ``bool()`` forks the current path.
SymInt   integer scalar (ids, shapes); ``==`` forks, constant hash so dict lookups compare by ``==``.

Only imported in symbolic mode (needs z3).
"""
import math
from fractions import Fraction

import numpy as _np
import z3


class Unsupported(Exception):
    """The code under analysis used something the executor cannot model: the run is inconclusive."""


class Infeasible(BaseException):
    """Current path has no feasible continuation (both sides of a branch refuted)."""


# --------------------------------------------------------------------------------------------
# execution context (reset at the start of every path execution so fresh names are deterministic)
# --------------------------------------------------------------------------------------------
class Ctx:
    def __init__(self):
        self.path = None
        self.reset()

    def reset(self):
        self.cons = []  # global assumptions: z3 BoolRef
        self.rules = {}  # z3 var name -> z3 term t, meaning  var*var == t   (for the reducer)
        self.n = 0
        self.trig = {}  # base-angle key -> (cos V, sin V)
        self.term_base = {}  # z3 term id -> base-angle key (for angles without metadata)
        self.sqrt_memo = {}
        self.inputs = {}  # name -> description of an input variable (for model extraction)
        self.tokens = {}  # g2o number tokens
        self.keep = []  # keep z3 terms alive so that get_id() keys stay unique
        self.shadow = None  # valuation (name -> float) when running in validation ("shadow") mode
        self.fp_mode = False  # IEEE binary64 kernels (symrun/fp.py): np.pi is the double, not the real number

    def fresh(self, prefix):
        self.n += 1
        return "%s!%d" % (prefix, self.n)


CTX = Ctx()

ZERO = Fraction(0)
ONE = Fraction(1)


def is_num(x):
    return isinstance(x, (int, float, Fraction, _np.integer, _np.floating)) and not isinstance(x, (bool, _np.bool_))


def frac(x):
    if isinstance(x, Fraction):
        return x
    if isinstance(x, (int, _np.integer)):
        return Fraction(int(x))
    x = float(x)
    if math.isnan(x) or math.isinf(x):
        raise Unsupported("non-finite constant %r" % x)
    return Fraction(x)


def vz(a):
    """value -> z3 Real term"""
    if isinstance(a, Fraction):
        return z3.Q(a.numerator, a.denominator)
    return a


def vadd(a, b):
    fa, fb = isinstance(a, Fraction), isinstance(b, Fraction)
    if fa and fb:
        return a + b
    if fa and a == 0:
        return b
    if fb and b == 0:
        return a
    return vz(a) + vz(b)


def vsub(a, b):
    fa, fb = isinstance(a, Fraction), isinstance(b, Fraction)
    if fa and fb:
        return a - b
    if fb and b == 0:
        return a
    if fa and a == 0:
        return -b
    return vz(a) - vz(b)


def vneg(a):
    if isinstance(a, Fraction):
        return -a
    return -a


def vmul(a, b):
    fa, fb = isinstance(a, Fraction), isinstance(b, Fraction)
    if fa and fb:
        return a * b
    if fa:
        if a == 0:
            return ZERO
        if a == 1:
            return b
        if a == -1:
            return -b
    if fb:
        if b == 0:
            return ZERO
        if b == 1:
            return a
        if b == -1:
            return -a
    return vz(a) * vz(b)


def vdiv(a, b):
    if isinstance(b, Fraction):
        if b == 0:
            raise Unsupported("division by the constant zero")
        return vmul(a, 1 / b)
    if isinstance(a, Fraction) and a == 0:
        return ZERO
    return vz(a) / b


def vsimp(a):
    """collapse a z3 term that is really a numeral to a Fraction"""
    if isinstance(a, Fraction):
        return a
    s = z3.simplify(a)
    if z3.is_rational_value(s):
        return Fraction(s.numerator_as_long(), s.denominator_as_long())
    return a


# --------------------------------------------------------------------------------------------
# angle metadata helpers: dict key->int, special keys 'pi' (int) and '#' (Fraction constant)
# --------------------------------------------------------------------------------------------
def _ang_add(a, b, sign=1):
    if a is None or b is None:
        return None
    r = dict(a)
    for k, n in b.items():
        r[k] = r.get(k, 0) + sign * n
        if r[k] == 0:
            del r[k]
    return r


def _ang_scale(a, n):
    if a is None:
        return None
    if n == 0:
        return {}
    return {k: v * n for k, v in a.items()}


def trig_base(key):
    """(cos, sin) z3 variables for a base angle, with the unit-circle contract"""
    if key not in CTX.trig:
        c = z3.Real("cos_%s" % key)
        s = z3.Real("sin_%s" % key)
        if CTX.shadow is not None:
            CTX.shadow[str(c)] = math.cos(CTX.shadow[key])
            CTX.shadow[str(s)] = math.sin(CTX.shadow[key])
        CTX.cons.append(c * c + s * s == 1)
        CTX.rules[str(c)] = 1 - s * s
        CTX.trig[key] = (c, s)
    return CTX.trig[key]


def _taylor_cos_sin(x, terms=12):
    """rational enclosures [lo,hi] of cos x and sin x for a small rational |x|<1 (alternating series)"""
    x2 = x * x
    # cos
    term = Fraction(1)
    c_part = [Fraction(0)]
    acc = Fraction(0)
    for i in range(terms):
        acc += term
        c_part.append(acc)
        term = -term * x2 / ((2 * i + 1) * (2 * i + 2))
    c_lo, c_hi = min(c_part[-1], c_part[-2]), max(c_part[-1], c_part[-2])
    term = x
    acc = Fraction(0)
    s_part = [Fraction(0)]
    for i in range(terms):
        acc += term
        s_part.append(acc)
        term = -term * x2 / ((2 * i + 2) * (2 * i + 3))
    s_lo, s_hi = min(s_part[-1], s_part[-2]), max(s_part[-1], s_part[-2])
    return (c_lo, c_hi), (s_lo, s_hi)


def trig_const(x):
    """(cos, sin) of a numeric constant angle: fresh variables inside rational enclosures"""
    if x == 0:
        return ONE, ZERO
    key = ("const", x)
    if key not in CTX.trig:
        if abs(x) >= 1:
            raise Unsupported("cos/sin of the numeric constant %s" % float(x))
        (clo, chi), (slo, shi) = _taylor_cos_sin(x)
        name = "k%d" % (len(CTX.trig) + 1)
        c = z3.Real("cos_%s" % name)
        s = z3.Real("sin_%s" % name)
        if CTX.shadow is not None:
            CTX.shadow[str(c)] = math.cos(float(x))
            CTX.shadow[str(s)] = math.sin(float(x))
        CTX.cons.append(c * c + s * s == 1)
        CTX.cons.append(z3.And(c >= vz(clo), c <= vz(chi), s >= vz(slo), s <= vz(shi)))
        CTX.trig[key] = (c, s)
    return CTX.trig[key]


def _trig_of_ang(ang):
    """cos and sin (values) of an angle given by its decomposition, via the addition formulas"""
    c, s = ONE, ZERO

    def combine(c, s, c2, s2):
        return vsub(vmul(c, c2), vmul(s, s2)), vadd(vmul(s, c2), vmul(c, s2))

    for k in sorted(ang, key=str):
        n = ang[k]
        if k == "pi":
            if n % 2:
                c, s = vneg(c), vneg(s)
            continue
        if k == "#":
            cb, sb = trig_const(n)
            c, s = combine(c, s, cb, sb)
            continue
        cb, sb = trig_base(k)
        if n < 0:
            sb = -sb
            n = -n
        for _ in range(n):
            c, s = combine(c, s, cb, sb)
    return c, s


# --------------------------------------------------------------------------------------------
class SymBool:
    __slots__ = ("b",)

    def __init__(self, b):
        self.b = b

    def __bool__(self):
        return CTX.path.decide(self.b)

    def __and__(self, o):
        if isinstance(o, SymBool):
            return SymBool(z3.And(self.b, o.b))
        return self if o else False

    __rand__ = __and__

    def __or__(self, o):
        if isinstance(o, SymBool):
            return SymBool(z3.Or(self.b, o.b))
        return True if o else self

    __ror__ = __or__

    def __xor__(self, o):
        if isinstance(o, SymBool):
            return SymBool(z3.Xor(self.b, o.b))
        return ~self if o else self

    __rxor__ = __xor__

    def __invert__(self):
        return SymBool(z3.Not(self.b))

    def __repr__(self):
        return "SymBool(%s)" % self.b


def mkbool(b):
    """python bool for decided conditions, SymBool otherwise"""
    if isinstance(b, bool):
        return b
    return SymBool(b)


# --------------------------------------------------------------------------------------------
class Sym:
    __slots__ = ("v", "t", "ang", "sq")

    def __init__(self, v, t=None, ang=None, sq=None):
        self.v = v
        self.t = t
        self.ang = ang
        self.sq = sq  # for square roots: the radicand value (so that r**2 is the radicand)

    # ---- construction helpers
    @staticmethod
    def const(x):
        return Sym(frac(x))

    @staticmethod
    def lift(x):
        if isinstance(x, Sym):
            return x
        if is_num(x):
            return Sym(frac(x))
        if isinstance(x, SymInt):
            return Sym(frac(x.v) if isinstance(x.v, int) else z3.ToReal(x.v))
        return None

    def is_const(self):
        return isinstance(self.v, Fraction)

    def _ang(self):
        if self.ang is not None:
            return self.ang
        if isinstance(self.v, Fraction):
            return {} if self.v == 0 else {"#": self.v}
        return None

    def z(self):
        return vz(self.v)

    def tz(self):
        return vz(self.t if self.t is not None else ZERO)

    # ---- arithmetic
    def __add__(self, o):
        if isinstance(o, _np.ndarray):
            return NotImplemented
        o = Sym.lift(o)
        if o is None:
            return NotImplemented
        t = None
        if self.t is not None or o.t is not None:
            t = vadd(self.t if self.t is not None else ZERO, o.t if o.t is not None else ZERO)
        return Sym(vadd(self.v, o.v), t, _ang_add(self._ang(), o._ang()))

    __radd__ = __add__

    def __sub__(self, o):
        if isinstance(o, _np.ndarray):
            return NotImplemented
        o = Sym.lift(o)
        if o is None:
            return NotImplemented
        t = None
        if self.t is not None or o.t is not None:
            t = vsub(self.t if self.t is not None else ZERO, o.t if o.t is not None else ZERO)
        return Sym(vsub(self.v, o.v), t, _ang_add(self._ang(), o._ang(), -1))

    def __rsub__(self, o):
        if isinstance(o, _np.ndarray):
            return NotImplemented
        o = Sym.lift(o)
        if o is None:
            return NotImplemented
        return o.__sub__(self)

    def __neg__(self):
        return Sym(vneg(self.v), None if self.t is None else vneg(self.t), _ang_scale(self._ang(), -1))

    def __pos__(self):
        return self

    def __mul__(self, o):
        if isinstance(o, _np.ndarray):
            return NotImplemented
        o = Sym.lift(o)
        if o is None:
            return NotImplemented
        if o is self and self.sq is not None and self.t is None:
            return Sym(self.sq)
        t = None
        if self.t is not None or o.t is not None:
            t = ZERO
            if self.t is not None:
                t = vadd(t, vmul(self.t, o.v))
            if o.t is not None:
                t = vadd(t, vmul(self.v, o.t))
        ang = None
        if isinstance(o.v, Fraction) and o.v.denominator == 1:
            ang = _ang_scale(self._ang(), int(o.v))
        elif isinstance(self.v, Fraction) and self.v.denominator == 1:
            ang = _ang_scale(o._ang(), int(self.v))
        return Sym(vmul(self.v, o.v), t, ang)

    __rmul__ = __mul__

    def __truediv__(self, o):
        if isinstance(o, _np.ndarray):
            return NotImplemented
        o = Sym.lift(o)
        if o is None:
            return NotImplemented
        t = None
        if self.t is not None or o.t is not None:
            # (a/b)' = a'/b - a b'/b^2
            t = ZERO
            if self.t is not None:
                t = vadd(t, vdiv(self.t, o.v))
            if o.t is not None:
                t = vsub(t, vdiv(vmul(self.v, o.t), vmul(o.v, o.v)))
        return Sym(vdiv(self.v, o.v), t)

    def __rtruediv__(self, o):
        if isinstance(o, _np.ndarray):
            return NotImplemented
        o = Sym.lift(o)
        if o is None:
            return NotImplemented
        return o.__truediv__(self)

    def __pow__(self, n):
        if isinstance(n, Sym) and n.is_const():
            n = n.v
        if is_num(n) and frac(n).denominator == 1:
            n = int(frac(n))
            if n == 2 and self.sq is not None and self.t is None:
                return Sym(self.sq)
            if n == 0:
                return Sym(ONE)
            if n < 0:
                return Sym(ONE) / (self ** (-n))
            r = self
            for _ in range(n - 1):
                r = r * self
            return r
        if is_num(n) and frac(n) == Fraction(1, 2):
            return self.sqrt()
        raise Unsupported("power with exponent %r" % (n,))

    def __abs__(self):
        if self.is_const():
            return Sym(abs(self.v), self.t if self.v >= 0 or self.t is None else vneg(self.t))
        if self >= 0:
            return self
        return -self

    def __mod__(self, m):
        m = Sym.lift(m)
        if m is None or not m.is_const() or m.v <= 0:
            raise Unsupported("modulo by a non-constant")
        mang = m._ang()
        ang = self._ang()
        if ang is not None and mang is not None and set(mang) == {"pi"} and mang["pi"] % 2 == 0:
            ang = dict(ang)
            if "pi" in ang:
                ang["pi"] %= 2
                if ang["pi"] == 0:
                    del ang["pi"]
        else:
            ang = None
        if self.is_const():
            return Sym(self.v % m.v, self.t, ang)
        key = ("mod", self.v.get_id(), m.v)
        if key not in CTX.sqrt_memo:
            # % is a function: the same dividend term gets the same quotient variable
            CTX.keep.append(self.v)
            k = z3.Int(CTX.fresh("k"))
            if CTX.shadow is not None:
                from .shadow import evalf

                CTX.shadow[str(k)] = math.floor(evalf(self.v, CTX.shadow) / float(m.v))
            r = self.v - vz(m.v) * z3.ToReal(k)
            CTX.cons.append(z3.And(r >= 0, r < vz(m.v)))
            CTX.sqrt_memo[key] = r
        r = CTX.sqrt_memo[key]
        return Sym(r, self.t, ang)

    def __rmod__(self, o):
        raise Unsupported("modulo by a symbolic value")

    # ---- numpy object-ufunc hooks
    def sqrt(self):
        v = vsimp(self.v)
        if isinstance(v, Fraction):
            if v < 0:
                raise Unsupported("sqrt of a negative constant")
            n, d = math.isqrt(v.numerator), math.isqrt(v.denominator)
            if n * n == v.numerator and d * d == v.denominator:
                r = Fraction(n, d)
                if self.t is None:
                    return Sym(r, None, None, v)
                tv = vsimp(self.t)
                if isinstance(tv, Fraction) and tv == 0:
                    return Sym(r, None, None, None)
                if r == 0:
                    raise Unsupported("derivative of sqrt at zero")
                return Sym(r, vdiv(self.t, 2 * r), None, None)
            key = ("c", v)
        else:
            key = ("t", v.get_id())
            CTX.keep.append(v)
        if key not in CTX.sqrt_memo:
            r = z3.Real(CTX.fresh("sqrt"))
            if CTX.shadow is not None:
                from .shadow import evalf

                CTX.shadow[str(r)] = math.sqrt(max(0.0, evalf(vz(v), CTX.shadow)))
            CTX.cons.append(z3.And(r >= 0, r * r == vz(v)))
            CTX.rules[str(r)] = vz(v)
            CTX.sqrt_memo[key] = r
        r = CTX.sqrt_memo[key]
        if self.t is None:
            return Sym(r, None, None, v)
        return Sym(r, vdiv(self.t, 2 * r), None, None)

    def _trig(self):
        ang = self._ang()
        if ang is None:
            v = self.v
            tid = v.get_id()
            if tid not in CTX.term_base:
                CTX.keep.append(v)
                CTX.term_base[tid] = CTX.fresh("ang").replace("!", "")
                if CTX.shadow is not None:
                    from .shadow import evalf

                    CTX.shadow[CTX.term_base[tid]] = evalf(v, CTX.shadow)
            ang = {CTX.term_base[tid]: 1}
        return _trig_of_ang(ang)

    def cos(self):
        c, s = self._trig()
        return Sym(c, None if self.t is None else vneg(vmul(s, self.t)))

    def sin(self):
        c, s = self._trig()
        return Sym(s, None if self.t is None else vmul(c, self.t))

    def conjugate(self):
        return self

    # ---- comparisons
    def _cmp(self, o, op):
        if isinstance(o, (float, _np.floating)) and not math.isfinite(float(o)):
            # engine reals are finite: comparisons with +-inf / nan are decided (IEEE semantics)
            return bool(op(0.0, float(o)))
        o = Sym.lift(o)
        if o is None:
            return NotImplemented
        if self.is_const() and o.is_const():
            return op(self.v, o.v)
        b = z3.simplify(op(self.z(), o.z()))
        if z3.is_true(b):
            return True
        if z3.is_false(b):
            return False
        return SymBool(b)

    def __lt__(self, o):
        return self._cmp(o, lambda a, b: a < b)

    def __le__(self, o):
        return self._cmp(o, lambda a, b: a <= b)

    def __gt__(self, o):
        return self._cmp(o, lambda a, b: a > b)

    def __ge__(self, o):
        return self._cmp(o, lambda a, b: a >= b)

    def __eq__(self, o):
        if isinstance(o, _np.ndarray):
            return NotImplemented
        r = self._cmp(o, lambda a, b: a == b)
        return False if r is NotImplemented else r

    def __ne__(self, o):
        if isinstance(o, _np.ndarray):
            return NotImplemented
        r = self._cmp(o, lambda a, b: a != b)
        return True if r is NotImplemented else r

    __hash__ = object.__hash__

    def __bool__(self):
        r = self != 0
        return bool(r)

    # ---- conversions
    def __float__(self):
        if self.is_const():
            return float(self.v)
        raise Unsupported("float() of a symbolic value")

    def __int__(self):
        if self.is_const():
            return int(self.v)
        v = self.v
        if z3.is_app(v) and v.decl().kind() == z3.Z3_OP_TO_REAL:
            # int(float(i)) for an integer that travelled through a double: exact up to 2**53, unrelated beyond
            x = v.arg(0)
            junk = z3.Int(CTX.fresh("intviafloat"))
            if CTX.shadow is not None:
                from .shadow import evalf

                CTX.shadow[str(junk)] = int(float(evalf(x, CTX.shadow)))
            lim = 2 ** 53
            return SymInt(z3.If(z3.And(x >= -lim, x <= lim), x, junk))
        raise Unsupported("int() of a symbolic value")

    def __round__(self, n=None):
        if self.is_const():
            return round(self.v, n) if n is not None else round(self.v)
        raise Unsupported("round() of a symbolic value")

    def __format__(self, spec):
        if self.is_const():
            return format(float(self.v), spec)
        from . import tokens

        return tokens.make_token(self, spec)

    def __str__(self):
        return self.__format__("")

    def __round__(self, n=None):
        """round(x, n): an UNKNOWN value within half a unit of the last kept decimal place of x (sound over-approximation:
        which way a double rounds in decimal is behind the C boundary); round(x) without n is not modelled"""
        if self.is_const():
            return Sym.const(round(float(self.v), n)) if n is not None else round(float(self.v))
        if n is None:
            raise Unsupported("round() of a symbolic value to an integer")
        r = z3.Real(CTX.fresh("rounded"))
        half = z3.Q(5, 10 ** (n + 1)) if n >= 0 else z3.RealVal(5 * 10 ** (-n - 1))
        CTX.cons.append(z3.And(r - self.z() <= half, self.z() - r <= half))
        if CTX.shadow is not None:
            CTX.shadow[str(r)] = float("nan")
        return Sym(r)

    def __floor__(self):
        """math.floor / np.floor of a real: the integer part as a real-valued scalar"""
        if self.is_const():
            return Sym.const(math.floor(self.v))
        return Sym(z3.ToReal(z3.ToInt(self.z())))

    def is_integer(self):
        """float.is_integer"""
        if self.is_const():
            return float(self.v).is_integer()
        return mkbool(z3.simplify(z3.IsInt(self.z())))

    def __repr__(self):
        if self.is_const():
            return "Sym(%s)" % float(self.v)
        return "Sym(%s)" % (self.v.sexpr() if len(self.v.sexpr()) < 80 else self.v.sexpr()[:77] + "...")


PI = Sym(Fraction(math.pi), None, {"pi": 1})
TWO_PI = Sym(2 * Fraction(math.pi), None, {"pi": 2})


# --------------------------------------------------------------------------------------------
class SymInt:
    __slots__ = ("v",)

    def __init__(self, v):
        self.v = v

    def is_const(self):
        return isinstance(self.v, int)

    @staticmethod
    def _val(o):
        if isinstance(o, SymInt):
            return o.v
        if isinstance(o, (int, _np.integer)) and not isinstance(o, bool):
            return int(o)
        return None

    def _cmp(self, o, op):
        ov = SymInt._val(o)
        if ov is None:
            return NotImplemented
        if isinstance(self.v, int) and isinstance(ov, int):
            return op(self.v, ov)
        b = z3.simplify(op(self.v, ov))
        if z3.is_true(b):
            return True
        if z3.is_false(b):
            return False
        return SymBool(b)

    def __eq__(self, o):
        r = self._cmp(o, lambda a, b: a == b)
        return False if r is NotImplemented else r

    def __ne__(self, o):
        r = self._cmp(o, lambda a, b: a != b)
        return True if r is NotImplemented else r

    def __lt__(self, o):
        return self._cmp(o, lambda a, b: a < b)

    def __le__(self, o):
        return self._cmp(o, lambda a, b: a <= b)

    def __gt__(self, o):
        return self._cmp(o, lambda a, b: a > b)

    def __ge__(self, o):
        return self._cmp(o, lambda a, b: a >= b)

    def __hash__(self):
        return 0

    def __add__(self, o):
        ov = SymInt._val(o)
        if ov is None:
            return NotImplemented
        return SymInt(self.v + ov)

    __radd__ = __add__

    def __sub__(self, o):
        ov = SymInt._val(o)
        if ov is None:
            return NotImplemented
        return SymInt(self.v - ov)

    def __rsub__(self, o):
        ov = SymInt._val(o)
        if ov is None:
            return NotImplemented
        return SymInt(ov - self.v)

    def __mul__(self, o):
        ov = SymInt._val(o)
        if ov is None:
            return NotImplemented
        return SymInt(self.v * ov)

    __rmul__ = __mul__

    def __neg__(self):
        return SymInt(-self.v)

    def __index__(self):
        if isinstance(self.v, int):
            return self.v
        # a symbolic integer used as a sequence index: one path per small concrete value (list positions), anything else
        # is outside the engine's reach
        # (the harness sequences have fewer than 8 elements, so every other value is out of range for them: it is
        # represented by an index no sequence has, and Python raises its IndexError)
        if bool(self >= 0):
            for k in (0, 1, 2, 3, 4, 5, 6, 7):
                if bool(self == k):
                    return k
            return 2 ** 62
        for k in (-1, -2, -3, -4, -5, -6, -7, -8):
            if bool(self == k):
                return k
        return -(2 ** 62)

    def __int__(self):
        if isinstance(self.v, int):
            return self.v
        raise Unsupported("int() of a symbolic integer")

    def __bool__(self):
        return bool(self != 0)

    def __format__(self, spec):
        if isinstance(self.v, int):
            return format(self.v, spec)
        from . import tokens

        return tokens.make_token(self, spec)

    def __str__(self):
        return self.__format__("")

    def __repr__(self):
        return "SymInt(%s)" % (self.v,)
