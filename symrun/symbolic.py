"""Symbolic provider: inputs are solver variables, checks become obligations."""
import math

import numpy
import z3

from .npproxy import NP
from .scalars import CTX, PI, Sym, SymBool, SymInt, Unsupported, frac, vz


class Obligation:
    __slots__ = ("name", "goal", "eq", "pc", "cons", "rules", "deriv", "path_index")

    def __init__(self, name, goal, eq, pc, cons, rules, deriv=False):
        self.name = name
        self.goal = goal
        self.eq = eq
        self.pc = pc
        self.cons = cons
        self.rules = rules
        self.deriv = deriv
        self.path_index = None


class SymProvider:
    symbolic = True
    np = NP

    def __init__(self):
        self.obligations = []
        self.inputs = {}  # name -> kind
        self.notes = {}
        self.n_checks = 0
        self._names = {}

    def _uniq(self, name):
        n = self._names.get(name, 0) + 1
        self._names[name] = n
        return name if n == 1 else "%s#%d" % (name, n)

    # ---- inputs
    def _shadow(self, name, default=0.0):
        if CTX.shadow is not None and name not in CTX.shadow:
            raise Unsupported("shadow valuation lacks input %s" % name)

    def real(self, name, lo=None, hi=None, scale=3.0):
        self._shadow(name)
        v = z3.Real(name)
        self.inputs[name] = "real"
        if lo is not None:
            CTX.cons.append(v >= vz(frac(lo)))
        if hi is not None:
            CTX.cons.append(v <= vz(frac(hi)))
        return Sym(v)

    def sampled_real(self, name, sampler):
        return self.real(name)

    def draw_from(self, pool):
        """concrete-side hint only (see ConcreteProvider.draw_from)"""

    # ---- IEEE binary64 inputs (symrun/fp.py)
    def fp(self, name, lo=None, hi=None):
        from . import fp

        v = z3.FP(name, fp.F64)
        self.inputs[name] = "fp"
        CTX.cons.append(z3.And(z3.Not(z3.fpIsNaN(v)), z3.Not(z3.fpIsInf(v))))
        if lo is not None:
            CTX.cons.append(z3.fpGEQ(v, fp.fpval(lo)))
        if hi is not None:
            CTX.cons.append(z3.fpLEQ(v, fp.fpval(hi)))
        return fp.SymFP(v)

    def fp_mode(self, g):
        import contextlib
        import math

        from . import fp

        @contextlib.contextmanager
        def cm():
            old_tp = getattr(g.util, "TWO_PI", None)
            CTX.fp_mode = True
            g.util.TWO_PI = fp.SymFP(fp.fpval(2 * math.pi))
            try:
                yield
            finally:
                CTX.fp_mode = False
                g.util.TWO_PI = old_tp

        return cm()

    def check_bits(self, name, a, b):
        """the two doubles are bit-identical"""
        from . import fp

        la = numpy.array(a, dtype=object).reshape(-1)
        lb = numpy.array(b, dtype=object).reshape(-1)
        if la.shape != lb.shape:
            self.fail(name, "shape %s vs %s" % (la.shape, lb.shape))
            return
        for i, (x, y) in enumerate(zip(la, lb)):
            self.check("%s[%d]" % (name, i), fp.same_bits(x, y))

    def reals(self, name, n, **kw):
        return [self.real("%s_%d" % (name, i), **kw) for i in range(n)]

    def positive(self, name, scale=1.0):
        self._shadow(name)
        v = z3.Real(name)
        self.inputs[name] = "real"
        CTX.cons.append(v > 0)
        return Sym(v)

    def unit_quat(self, name):
        names = [name + "_" + c for c in "xyzw"]
        vs = [z3.Real(n) for n in names]
        for n in names:
            self._shadow(n)
            self.inputs[n] = "quat:" + name
        x, y, z, w = vs
        CTX.cons.append(w * w + x * x + y * y + z * z == 1)
        CTX.rules[str(w)] = 1 - x * x - y * y - z * z
        return [Sym(v) for v in vs]

    def angle(self, name, wrapped=False, big=False):
        self._shadow(name)
        v = z3.Real(name)
        self.inputs[name] = "angle"
        if wrapped:
            CTX.cons.append(z3.And(v >= -PI.z(), v < PI.z()))
        return Sym(v, None, {name: 1})

    def int(self, name, lo=None, hi=None):
        self._shadow(name)
        v = z3.Int(name)
        self.inputs[name] = "int"
        return SymInt(v)

    def distinct(self, xs):
        vs = [x.v if isinstance(x, SymInt) else x for x in xs]
        if len(vs) > 1:
            CTX.cons.append(z3.Distinct(*[v if not isinstance(v, int) else z3.IntVal(v) for v in vs]))

    def sym_matrix(self, name, n, psd=False):
        m = numpy.empty((n, n), dtype=object)
        for i in range(n):
            for j in range(i, n):
                v = self.real("%s_%d_%d" % (name, i, j))
                m[i, j] = v
                m[j, i] = v
        return m

    def full_matrix(self, name, r, c):
        m = numpy.empty((r, c), dtype=object)
        for i in range(r):
            for j in range(c):
                m[i, j] = self.real("%s_%d_%d" % (name, i, j))
        return m

    def vector(self, name, n, **kw):
        a = numpy.empty(n, dtype=object)
        for i, v in enumerate(self.reals(name, n, **kw)):
            a[i] = v
        return a

    def assume(self, cond):
        if isinstance(cond, SymBool):
            CTX.cons.append(cond.b)
        elif isinstance(cond, z3.BoolRef):
            CTX.cons.append(cond)
        elif not cond:
            CTX.cons.append(z3.BoolVal(False))

    # ---- derivative oracle: dual numbers through the real code
    def derivative(self, f, dim, h=None):
        cols = []
        for j in range(dim):
            d = numpy.empty(dim, dtype=object)
            d.fill(0.0)
            d[j] = Sym(frac(0), frac(1))
            out = numpy.array(f(d), dtype=object)
            tang = numpy.empty(out.shape, dtype=object)
            for idx in numpy.ndindex(out.shape):
                e = Sym.lift(out[idx])
                if e is None:
                    raise Unsupported("derivative of non-numeric output")
                tang[idx] = Sym(e.t if e.t is not None else frac(0))
            cols.append(tang)
        return numpy.stack(cols, axis=-1)

    # ---- checks
    def _snap(self):
        return list(CTX.path.pc), CTX.cons, CTX.rules

    def check_eq(self, name, lhs, rhs, tol=None, deriv=False, exact=False):
        name = self._uniq(name)
        self.n_checks += 1
        la = numpy.array(lhs, dtype=object)
        ra = numpy.array(rhs, dtype=object)
        if la.shape != ra.shape:
            try:
                la, ra = numpy.broadcast_arrays(la, ra)
            except ValueError:
                self.fail(name, "shape %s vs %s" % (la.shape, ra.shape))
                return
        pc, cons, rules = self._snap()
        for idx in numpy.ndindex(la.shape):
            l = Sym.lift(la[idx])
            r = Sym.lift(ra[idx])
            if l is None or r is None:
                self.fail(name, "non-numeric entry")
                return
            if l.t is not None or r.t is not None:
                raise Unsupported("check_eq on dual numbers; compare tangents explicitly")
            nm = name if la.shape == () else "%s%s" % (name, list(idx))
            lz, rz = l.z(), r.z()
            self.obligations.append(Obligation(nm, lz == rz, (lz, rz), pc, cons, rules, deriv))

    def check(self, name, cond):
        name = self._uniq(name)
        self.n_checks += 1
        pc, cons, rules = self._snap()
        if isinstance(cond, SymBool):
            g = cond.b
        elif isinstance(cond, z3.BoolRef):
            g = cond
        else:
            g = z3.BoolVal(bool(cond))
        self.obligations.append(Obligation(name, g, None, pc, cons, rules))

    def fail(self, name, msg=""):
        name = self._uniq(name)
        self.n_checks += 1
        pc, cons, rules = self._snap()
        self.obligations.append(Obligation(name, z3.BoolVal(False), None, pc, cons, rules))

    def note(self, key, val):
        self.notes[key] = val

    def is_true(self, cond):
        return bool(cond)

    @staticmethod
    def _b(x):
        if isinstance(x, SymBool):
            return x.b
        if isinstance(x, z3.BoolRef):
            return x
        return z3.BoolVal(bool(x))

    def is_integer(self, x, tol=None):
        x = Sym.lift(x)
        return SymBool(z3.IsInt(x.z()))

    def both(self, a, b):
        return SymBool(z3.And(self._b(a), self._b(b)))

    def either(self, a, b):
        return SymBool(z3.Or(self._b(a), self._b(b)))

    def implies(self, a, b):
        return SymBool(z3.Implies(self._b(a), self._b(b)))

    def const(self, x):
        return Sym.const(x)

    def same_truth(self, a, b):
        return SymBool(self._b(a) == self._b(b))

    def is_boolean(self, x):
        import numpy

        return isinstance(x, (bool, numpy.bool_, SymBool, z3.BoolRef))


def model_to_inputs(model, inputs):
    """solver model -> concrete inputs (unit quaternions renormalised); returns a list of candidate input dicts"""
    base = {}
    quats = {}
    angles = []
    for name, kind in inputs.items():
        if kind == "real":
            base[name] = float(model.get(name, 0.0))
        elif kind == "int":
            base[name] = int(round(model.get(name, 0)))
        elif kind == "fp":
            base[name] = float(model.get(name, 0.0))
        elif kind.startswith("quat:"):
            quats.setdefault(kind[5:], {})[name] = float(model.get(name, 0.0))
        elif kind == "angle":
            angles.append(name)
    for q, comps in quats.items():
        nrm = math.sqrt(sum(v * v for v in comps.values()))
        if nrm < 1e-12:
            comps = {n: (1.0 if n.endswith("_w") else 0.0) for n in comps}
            nrm = 1.0
        for n, v in comps.items():
            base[n] = v / nrm
    cands = [dict(base), dict(base)]
    for a in angles:
        direct = float(model.get(a, 0.0))
        c = model.get("cos_" + a)
        s = model.get("sin_" + a)
        cands[0][a] = direct
        if c is not None and s is not None:
            th = math.atan2(s, c)
            # choose the representative congruent mod 2pi closest to the direct value
            k = round((direct - th) / (2 * math.pi))
            cands[1][a] = th + 2 * math.pi * k
        else:
            cands[1][a] = direct
    if cands[0] == cands[1]:
        return [cands[0]]
    return [cands[1], cands[0]]
