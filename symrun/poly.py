"""Untrusted polynomial reducer that emits z3-checkable local lemmas (the "certificate route").

For polynomial identities modulo constraints of the form v*v == rhs(other variables) (unit quaternions,
unit circle, square roots) that neither z3 version decides directly.  The reducer computes normal forms
NF(.) of every node of the goal's term DAG; for every node it emits a *constraint-free* polynomial identity

    op(NF(child_1), ..., NF(child_k)) == NF(node) + sum_v q_v * (v*v - rhs_v)

which z3 checks on its own (milliseconds).  By induction over the DAG, node == NF(node) wherever the
constraints hold, so a goal ``lhs == rhs`` whose NF(lhs - rhs) is the zero polynomial holds on the whole
constraint set.  Nothing computed here is trusted; only the z3 verdicts on the lemmas are.
"""
from fractions import Fraction

import z3


class NotPolynomial(Exception):
    pass


# Polynomials: dict {monomial: coefficient}.  A monomial is a Python int packing the exponent of variable number i
# into bits [BITS*i, BITS*(i+1)) so that the product of two monomials is integer addition.  Coefficients are ints where
# possible, Fractions otherwise.
BITS = 5
MASK = (1 << BITS) - 1
_VAR_INDEX = {}
_VAR_NAMES = []


def var_index(name):
    i = _VAR_INDEX.get(name)
    if i is None:
        i = len(_VAR_NAMES)
        _VAR_INDEX[name] = i
        _VAR_NAMES.append(name)
    return i


def _coef(c):
    if isinstance(c, Fraction) and c.denominator == 1:
        return int(c)
    return c


def p_const(c):
    c = _coef(Fraction(c))
    return {0: c} if c else {}


def p_var(name):
    return {1 << (BITS * var_index(name)): 1}


def p_add(a, b, sb=1):
    r = dict(a)
    for m, c in b.items():
        v = r.get(m, 0) + sb * c
        if v:
            r[m] = v
        else:
            r.pop(m, None)
    return r


def p_scale(a, k):
    k = _coef(Fraction(k))
    if not k:
        return {}
    return {m: _coef(c * k) for m, c in a.items()}


def m_items(m):
    """[(var name, exponent)] of a packed monomial"""
    out = []
    i = 0
    while m:
        e = m & MASK
        if e:
            out.append((_VAR_NAMES[i], e))
        m >>= BITS
        i += 1
    return out


def p_mul(a, b):
    r = {}
    if len(a) > len(b):
        a, b = b, a
    get = r.get
    for m1, c1 in a.items():
        for m2, c2 in b.items():
            m = m1 + m2
            v = get(m, 0) + c1 * c2
            if v:
                r[m] = v
            else:
                r.pop(m, None)
    return r


def p_maxexp(p):
    mx = 0
    for m in p:
        while m:
            e = m & MASK
            if e > mx:
                mx = e
            m >>= BITS
    return mx


class Reducer:
    def __init__(self, rules, max_terms=2000000):
        """rules: {var name: z3 term rhs}  meaning var*var == rhs"""
        self.rules_z3 = dict(rules)
        self.zvars = {}  # name -> z3 term for the variable
        self.memo = {}
        self.keep = []
        self.lemmas = []
        self.rule_poly = {}
        self.max_terms = max_terms
        self.n_product_lemmas = 0
        self._shifts = None
        self.int_vars = {}
        for v in list(self.rules_z3):
            self.zvars[v] = z3.Real(v)
        for v, rhs in list(self.rules_z3.items()):
            try:
                self.rule_poly[v] = self._conv(rhs, plain=True)
            except NotPolynomial:
                # a rule whose right-hand side is not a polynomial (e.g. sqrt of a quotient) is simply not used
                del self.rules_z3[v]

    # ---- reduction of a polynomial, tracking cofactors
    def _rule_shifts(self):
        if self._shifts is None or len(self._shifts) != len(self.rule_poly):
            self._shifts = [(v, BITS * var_index(v)) for v in self.rule_poly]
        return self._shifts

    def _reduce(self, p):
        q = {}  # rule var -> cofactor polynomial
        work = dict(p)
        out = {}
        rule_shifts = self._rule_shifts()
        guard = 0
        while work:
            guard += 1
            if guard > 20000000:
                raise NotPolynomial("reduction does not terminate")
            m, c = work.popitem()
            hit = None
            for v, sh in rule_shifts:
                if ((m >> sh) & MASK) >= 2:
                    hit = (v, sh)
                    break
            if hit is None:
                nv = out.get(m, 0) + c
                if nv:
                    out[m] = nv
                else:
                    out.pop(m, None)
                continue
            v, sh = hit
            rest = m - (2 << sh)
            qq = q.setdefault(v, {})
            nv = qq.get(rest, 0) + c
            if nv:
                qq[rest] = nv
            else:
                qq.pop(rest, None)
            for m2, c2 in self.rule_poly[v].items():
                mm = rest + m2
                nv = work.get(mm, 0) + c * c2
                if nv:
                    work[mm] = nv
                else:
                    work.pop(mm, None)
            if len(work) + len(out) > self.max_terms:
                raise NotPolynomial("normal form too large")
        return out, q

    # ---- z3 term of a polynomial
    def z(self, p):
        if not p:
            return z3.RealVal(0)
        terms = []
        for m, c in sorted(p.items()):
            f = []
            if c != 1 or not m:
                c = Fraction(c)
                f.append(z3.Q(c.numerator, c.denominator))
            for v, e in m_items(m):
                zv = self.zvars[v]
                for _ in range(e):
                    f.append(zv)
            prod = f[0]
            for x in f[1:]:
                prod = prod * x
            terms.append(prod)
        return z3.Sum(terms) if len(terms) > 1 else terms[0]

    def _lemma(self, lhs_z, nf, q):
        rhs = self.z(nf)
        for v, qp in q.items():
            if qp:
                zv = self.zvars[v]
                rhs = rhs + self.z(qp) * (zv * zv - self.rules_z3[v])
        self.lemmas.append(lhs_z == rhs)

    def _mul_nodes(self, a, b, plain=False):
        if len(a) * len(b) > 50 * self.max_terms:
            raise NotPolynomial("product too large")
        raw = p_mul(a, b)
        if len(raw) > self.max_terms:
            raise NotPolynomial("product too large")
        if p_maxexp(raw) > MASK - 2:
            raise NotPolynomial("exponent overflow")
        if plain:
            return raw
        nf, q = self._reduce(raw)
        if any(q.values()):
            self._lemma(self.z(a) * self.z(b), nf, q)
            self.n_product_lemmas += 1
        elif len(a) > 1 and len(b) > 1:
            self._lemma(self.z(a) * self.z(b), nf, {})
        return nf

    def nf(self, t):
        return self._conv(t, plain=False)

    def _conv(self, t, plain):
        tid = (t.get_id(), plain)
        if tid in self.memo:
            return self.memo[tid]
        self.keep.append(t)
        r = self._conv1(t, plain)
        self.memo[tid] = r
        return r

    def _conv1(self, t, plain):
        if z3.is_rational_value(t):
            return p_const(Fraction(t.numerator_as_long(), t.denominator_as_long()))
        if z3.is_int_value(t):
            return p_const(t.as_long())
        if z3.is_const(t) and t.decl().kind() == z3.Z3_OP_UNINTERPRETED:
            self.zvars.setdefault(str(t), t)
            return p_var(str(t))
        k = t.decl().kind()
        ch = t.children()
        if k == z3.Z3_OP_TO_REAL:
            if z3.is_int_value(ch[0]):
                return p_const(ch[0].as_long())
            # in the (constraint-free) lemmas an integer variable is generalised to a real one: an identity that holds
            # for every real value holds for every integer value
            self.zvars.setdefault(str(ch[0]), z3.Real(str(ch[0]) + "_asreal"))
            self.int_vars[str(ch[0])] = ch[0]
            return p_var(str(ch[0]))
        if k == z3.Z3_OP_ADD:
            r = {}
            for c in ch:
                r = p_add(r, self._conv(c, plain))
            return r
        if k == z3.Z3_OP_SUB:
            r = self._conv(ch[0], plain)
            for c in ch[1:]:
                r = p_add(r, self._conv(c, plain), -1)
            return r
        if k == z3.Z3_OP_UMINUS:
            return p_scale(self._conv(ch[0], plain), -1)
        if k == z3.Z3_OP_MUL:
            r = self._conv(ch[0], plain)
            for c in ch[1:]:
                r = self._mul_nodes(r, self._conv(c, plain), plain)
            return r
        if k == z3.Z3_OP_POWER and z3.is_rational_value(ch[1]) and ch[1].denominator_as_long() == 1 and ch[1].numerator_as_long() >= 0:
            n = ch[1].numerator_as_long()
            if n == 0:
                return p_const(1)
            b = self._conv(ch[0], plain)
            r = b
            for _ in range(n - 1):
                r = self._mul_nodes(r, b, plain)
            return r
        if k == z3.Z3_OP_DIV and z3.is_rational_value(ch[1]):
            d = Fraction(ch[1].numerator_as_long(), ch[1].denominator_as_long())
            if d == 0:
                raise NotPolynomial("division by zero")
            return p_scale(self._conv(ch[0], plain), 1 / d)
        raise NotPolynomial(str(t.decl()))


def certificate(lhs, rhs, rules, lemma_timeout_ms=5000):
    """Try to prove lhs == rhs modulo the rules.

    returns (status, info): status in {'proved', 'nonzero', 'notpoly', 'lemma-failed'}
    """
    red = Reducer(rules)
    try:
        a = red.nf(lhs)
        b = red.nf(rhs)
    except NotPolynomial as e:
        return "notpoly", {"reason": str(e)}
    d = p_add(a, b, -1)
    info = {"lemmas": len(red.lemmas), "product_lemmas": red.n_product_lemmas, "nf_terms": len(d)}
    if d:
        return "nonzero", info
    for lem in red.lemmas:
        s = z3.Solver()
        s.set("timeout", lemma_timeout_ms)
        s.add(z3.Not(lem))
        r = s.check()
        if r != z3.unsat:
            info["failed_lemma"] = lem.sexpr()[:300]
            return "lemma-failed", info
    return "proved", info
