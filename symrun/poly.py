"""Untrusted polynomial reducer that emits z3-checkable local lemmas (the "certificate route").

For polynomial identities modulo constraints of the form v*v == rhs(other variables) (unit quaternions,
unit circle, square roots) that neither z3 version decides directly.  The reducer computes normal forms
NF(.) of every node of the goal's term DAG; for every node it emits a *constraint-free* polynomial identity

    op(NF(child_1), ..., NF(child_k)) == NF(node) + sum_v q_v * (v*v - rhs_v)

which z3 checks on its own (milliseconds).  By induction over the DAG, node == NF(node) wherever the
constraints hold, so a goal ``lhs == rhs`` whose NF(lhs - rhs) is the zero polynomial holds on the whole
constraint set.  Nothing computed here is trusted; only the z3 verdicts on the lemmas are.
"""
from fractions import Fraction

import z3


class NotPolynomial(Exception):
    pass


def p_const(c):
    c = Fraction(c)
    return {(): c} if c else {}


def p_var(name):
    return {((name, 1),): Fraction(1)}


def p_add(a, b, sb=1):
    r = dict(a)
    for m, c in b.items():
        v = r.get(m, 0) + sb * c
        if v:
            r[m] = v
        else:
            r.pop(m, None)
    return r


def p_scale(a, k):
    if not k:
        return {}
    return {m: c * k for m, c in a.items()}


def m_mul(m1, m2):
    if not m1:
        return m2
    if not m2:
        return m1
    d = dict(m1)
    for v, e in m2:
        d[v] = d.get(v, 0) + e
    return tuple(sorted(d.items()))


def p_mul(a, b):
    r = {}
    if len(a) > len(b):
        a, b = b, a
    for m1, c1 in a.items():
        for m2, c2 in b.items():
            m = m_mul(m1, m2)
            v = r.get(m, 0) + c1 * c2
            if v:
                r[m] = v
            else:
                r.pop(m, None)
    return r


class Reducer:
    def __init__(self, rules, max_terms=400000):
        """rules: {var name: z3 term rhs}  meaning var*var == rhs"""
        self.rules_z3 = dict(rules)
        self.zvars = {}  # name -> z3 term for the variable
        self.memo = {}
        self.keep = []
        self.lemmas = []
        self.rule_poly = {}
        self.max_terms = max_terms
        self.n_product_lemmas = 0
        for v in list(self.rules_z3):
            self.zvars[v] = z3.Real(v)
        for v, rhs in self.rules_z3.items():
            self.rule_poly[v] = self._plain(rhs)

    # ---- plain expansion (no reduction), used for rule right-hand sides
    def _plain(self, t):
        if z3.is_rational_value(t) or z3.is_int_value(t):
            return p_const(Fraction(t.numerator_as_long(), t.denominator_as_long()) if z3.is_rational_value(t) else t.as_long())
        if z3.is_const(t) and t.decl().kind() == z3.Z3_OP_UNINTERPRETED:
            self.zvars.setdefault(str(t), t)
            return p_var(str(t))
        k = t.decl().kind()
        ch = t.children()
        if k == z3.Z3_OP_TO_REAL:
            if z3.is_int_value(ch[0]):
                return p_const(ch[0].as_long())
            self.zvars.setdefault(str(ch[0]), t)
            return p_var(str(ch[0]))
        if k == z3.Z3_OP_ADD:
            r = {}
            for c in ch:
                r = p_add(r, self._plain(c))
            return r
        if k == z3.Z3_OP_SUB:
            r = self._plain(ch[0])
            for c in ch[1:]:
                r = p_add(r, self._plain(c), -1)
            return r
        if k == z3.Z3_OP_UMINUS:
            return p_scale(self._plain(ch[0]), -1)
        if k == z3.Z3_OP_MUL:
            r = p_const(1)
            for c in ch:
                r = p_mul(r, self._plain(c))
            return r
        if k == z3.Z3_OP_POWER and z3.is_rational_value(ch[1]) and ch[1].denominator_as_long() == 1 and ch[1].numerator_as_long() >= 0:
            r = p_const(1)
            b = self._plain(ch[0])
            for _ in range(ch[1].numerator_as_long()):
                r = p_mul(r, b)
            return r
        if k == z3.Z3_OP_DIV and z3.is_rational_value(ch[1]):
            d = Fraction(ch[1].numerator_as_long(), ch[1].denominator_as_long())
            if d == 0:
                raise NotPolynomial("division by zero")
            return p_scale(self._plain(ch[0]), 1 / d)
        raise NotPolynomial(str(t.decl()))

    # ---- reduction of a polynomial, tracking cofactors
    def _reduce(self, p):
        q = {}  # rule var -> cofactor polynomial
        work = dict(p)
        out = {}
        guard = 0
        while work:
            guard += 1
            if guard > 5000000:
                raise NotPolynomial("reduction does not terminate")
            m, c = work.popitem()
            hit = None
            for v, e in m:
                if e >= 2 and v in self.rule_poly:
                    hit = v
                    break
            if hit is None:
                nv = out.get(m, 0) + c
                if nv:
                    out[m] = nv
                else:
                    out.pop(m, None)
                continue
            # m = rest * v^2 ; replace by rest * rhs, cofactor += c*rest
            rest = tuple((v, e) if v != hit else (v, e - 2) for v, e in m)
            rest = tuple((v, e) for v, e in rest if e > 0)
            qq = q.setdefault(hit, {})
            nv = qq.get(rest, 0) + c
            if nv:
                qq[rest] = nv
            else:
                qq.pop(rest, None)
            for m2, c2 in self.rule_poly[hit].items():
                mm = m_mul(rest, m2)
                nv = work.get(mm, 0) + c * c2
                if nv:
                    work[mm] = nv
                else:
                    work.pop(mm, None)
            if len(work) + len(out) > self.max_terms:
                raise NotPolynomial("normal form too large")
        return out, q

    # ---- z3 term of a polynomial
    def z(self, p):
        if not p:
            return z3.RealVal(0)
        terms = []
        for m, c in sorted(p.items()):
            f = []
            if c != 1 or not m:
                f.append(z3.Q(c.numerator, c.denominator))
            for v, e in m:
                zv = self.zvars[v]
                for _ in range(e):
                    f.append(zv)
            prod = f[0]
            for x in f[1:]:
                prod = prod * x
            terms.append(prod)
        return z3.Sum(terms) if len(terms) > 1 else terms[0]

    def _lemma(self, lhs_z, nf, q):
        rhs = self.z(nf)
        for v, qp in q.items():
            if qp:
                zv = self.zvars[v]
                rhs = rhs + self.z(qp) * (zv * zv - self.rules_z3[v])
        self.lemmas.append(lhs_z == rhs)

    def _mul_nodes(self, a, b):
        raw = p_mul(a, b)
        nf, q = self._reduce(raw)
        if any(q.values()):
            self._lemma(self.z(a) * self.z(b), nf, q)
            self.n_product_lemmas += 1
        elif len(a) > 1 and len(b) > 1:
            self._lemma(self.z(a) * self.z(b), nf, {})
        return nf

    def nf(self, t):
        tid = t.get_id()
        if tid in self.memo:
            return self.memo[tid]
        self.keep.append(t)
        r = self._nf(t)
        self.memo[tid] = r
        return r

    def _nf(self, t):
        if z3.is_rational_value(t):
            return p_const(Fraction(t.numerator_as_long(), t.denominator_as_long()))
        if z3.is_int_value(t):
            return p_const(t.as_long())
        if z3.is_const(t) and t.decl().kind() == z3.Z3_OP_UNINTERPRETED:
            self.zvars.setdefault(str(t), t)
            return p_var(str(t))
        k = t.decl().kind()
        ch = t.children()
        if k == z3.Z3_OP_TO_REAL:
            if z3.is_int_value(ch[0]):
                return p_const(ch[0].as_long())
            self.zvars.setdefault(str(ch[0]), t)
            return p_var(str(ch[0]))
        if k == z3.Z3_OP_ADD:
            r = {}
            for c in ch:
                r = p_add(r, self.nf(c))
            return r
        if k == z3.Z3_OP_SUB:
            r = self.nf(ch[0])
            for c in ch[1:]:
                r = p_add(r, self.nf(c), -1)
            return r
        if k == z3.Z3_OP_UMINUS:
            return p_scale(self.nf(ch[0]), -1)
        if k == z3.Z3_OP_MUL:
            r = self.nf(ch[0])
            for c in ch[1:]:
                r = self._mul_nodes(r, self.nf(c))
            return r
        if k == z3.Z3_OP_POWER and z3.is_rational_value(ch[1]) and ch[1].denominator_as_long() == 1 and ch[1].numerator_as_long() >= 0:
            n = ch[1].numerator_as_long()
            if n == 0:
                return p_const(1)
            b = self.nf(ch[0])
            r = b
            for _ in range(n - 1):
                r = self._mul_nodes(r, b)
            return r
        if k == z3.Z3_OP_DIV and z3.is_rational_value(ch[1]):
            d = Fraction(ch[1].numerator_as_long(), ch[1].denominator_as_long())
            if d == 0:
                raise NotPolynomial("division by zero")
            return p_scale(self.nf(ch[0]), 1 / d)
        raise NotPolynomial(str(t.decl()))


def certificate(lhs, rhs, rules, lemma_timeout_ms=5000):
    """Try to prove lhs == rhs modulo the rules.

    returns (status, info): status in {'proved', 'nonzero', 'notpoly', 'lemma-failed'}
    """
    red = Reducer(rules)
    try:
        a = red.nf(lhs)
        b = red.nf(rhs)
    except NotPolynomial as e:
        return "notpoly", {"reason": str(e)}
    d = p_add(a, b, -1)
    info = {"lemmas": len(red.lemmas), "product_lemmas": red.n_product_lemmas, "nf_terms": len(d)}
    if d:
        info["nf"] = red.z(d)
        return "nonzero", info
    for lem in red.lemmas:
        s = z3.Solver()
        s.set("timeout", lemma_timeout_ms)
        s.add(z3.Not(lem))
        r = s.check()
        if r != z3.unsat:
            info["failed_lemma"] = str(lem)[:300]
            return "lemma-failed", info
    return "proved", info
