"""Check driver: explores every case of a harness module symbolically, decides the obligations with the solvers,
validates the encoding against float64 runs, replays counterexamples on the real code, writes evidence."""
import argparse
import fnmatch
import hashlib
import importlib
import json
import multiprocessing
import os
import re
import subprocess
import sys
import tempfile
import time
import traceback

VERIF = os.path.dirname(os.path.dirname(os.path.abspath(__file__)))
VENV_PY = "/venv/bin/python"

EXIT_OK, EXIT_VIOLATION, EXIT_INCONCLUSIVE = 0, 1, 2
MAX_BAD_PER_SHARD = 6


class Case:
    def __init__(self, name, fn, timeout=10, old_timeout=20, shards=1, validate=2, cert_first=False, try_old=True, search=40, feas_timeout_ms=2000, pc_first=False, expect_obligations=True, deriv=False, val_tol=None, shadow=True):
        self.name = name
        self.fn = fn
        self.timeout = timeout
        self.old_timeout = old_timeout
        self.shards = shards
        self.validate = validate
        self.cert_first = cert_first
        self.try_old = try_old
        self.search = search
        self.feas_timeout_ms = feas_timeout_ms
        self.pc_first = pc_first
        self.expect_obligations = expect_obligations
        self.val_tol = val_tol
        self.shadow = shadow


_G = {}


def _loaded(symbolic):
    if symbolic not in _G:
        from . import loader

        _G[symbolic] = loader.load(symbolic)
    return _G[symbolic]


# ------------------------------------------------------------------------------------------------
# concrete runs (subprocess under the repository's own interpreter)
# ------------------------------------------------------------------------------------------------
def run_concrete(modname, tier, jobs, timeout=600):
    """jobs: list of {case, inputs|None, seed, values: bool} -> list of results"""
    fd, path = tempfile.mkstemp(prefix="verif_jobs_", suffix=".json")
    with os.fdopen(fd, "w") as f:
        json.dump({"module": modname, "tier": tier, "jobs": jobs}, f)
    try:
        env = dict(os.environ)
        env["PYTHONDONTWRITEBYTECODE"] = "1"
        p = subprocess.run([VENV_PY, os.path.join(VERIF, "bin", "concrete.py"), path], capture_output=True, text=True, timeout=timeout, env=env)
        if p.returncode != 0:
            raise RuntimeError("concrete runner failed: %s" % p.stderr[-2000:])
        return json.loads(p.stdout.strip().splitlines()[-1])
    finally:
        try:
            os.unlink(path)
        except OSError:
            pass


def concrete_main(path):
    """entry point of bin/concrete.py"""
    from .concrete import ConcreteProvider
    from . import loader

    spec = json.load(open(path))
    mod = importlib.import_module(spec["module"])
    g = loader.load(False)
    cases = {c.name: c for c in mod.cases(spec["tier"])}
    out = []
    for job in spec["jobs"]:
        c = cases[job["case"]]
        loader.reset_stubs(g)
        P = ConcreteProvider(job.get("inputs"), job.get("seed", 0), record_values=job.get("values", False), tight=job.get("tight", False), special=job.get("special", False))
        err = None
        try:
            import warnings

            with warnings.catch_warnings():
                warnings.simplefilter("ignore")
                c.fn(P, g)
        except Exception as e:  # noqa
            err = "%s: %s" % (type(e).__name__, e)
            if not P.assume_failed:
                P.failures.append({"name": "exception", "msg": err + " | " + traceback.format_exc()[-600:]})
        out.append({"case": c.name, "inputs": P.inputs, "failures": [] if P.assume_failed else P.failures, "values": P.values, "assume_failed": P.assume_failed, "n_checks": P.n_checks, "error": err})
    print(json.dumps(out))


# ------------------------------------------------------------------------------------------------
# symbolic worker
# ------------------------------------------------------------------------------------------------
def _profile_functions(store):
    repo = os.path.realpath(os.environ.get("VERIF_REPO", "/repo")) + os.sep

    def prof(frame, event, arg):
        if event == "call":
            co = frame.f_code
            fn = co.co_filename
            if fn.startswith(repo) and "/graphslam/" in fn:
                store.add("%s:%s" % (os.path.relpath(fn, repo), getattr(co, "co_qualname", co.co_name)))

    return prof


def work(job):
    modname, tier, case_name, shard, nshards, seed = job
    t0 = time.time()
    out = {"case": case_name, "shard": shard, "obligations": [], "paths": 0, "error": None, "unsupported": None, "functions": [], "validation": None, "notes": {}}
    try:
        from . import decide
        from .paths import STATS, Explorer
        from .scalars import CTX, Unsupported
        from .symbolic import SymProvider, model_to_inputs

        mod = importlib.import_module(modname)
        g = _loaded(True)
        case = {c.name: c for c in mod.cases(tier)}[case_name]
        known = [k for k in load_known(mod.PROPERTY) if fnmatch.fnmatch(case_name, k.get("case", "*"))]
        if known:
            # a listed finding only short-cuts the solver while the defect is still there: probe the real code first
            try:
                probe = run_concrete(modname, tier, [{"case": case_name, "inputs": None, "seed": seed * 77 + i} for i in range(4)])
                names = [f["name"] for r in probe for f in r["failures"]]
                known = [k for k in known if any(fnmatch.fnmatch(n, k.get("obligation", "*")) for n in names)]
            except Exception:  # noqa
                known = []
        funcs = set()

        def body():
            from . import loader

            loader.reset_stubs(g)
            P = SymProvider()
            try:
                case.fn(P, g)
            except Unsupported:
                raise
            except Exception as e:  # noqa
                P.fail("exception:%s" % type(e).__name__, "%s: %s" % (type(e).__name__, str(e)[:80]))
                P.notes["traceback"] = traceback.format_exc()[-1500:]
                if os.environ.get("VERIF_DEBUG"):
                    sys.stderr.write("EXC in %s: %s\n" % (case_name, traceback.format_exc()[-1200:]))
            return P

        ex = Explorer(feas_timeout_ms=case.feas_timeout_ms)
        counter = 0
        n_bad = 0
        n_expected = 0
        out["skipped"] = 0
        case_budget_s = float(os.environ.get("VERIF_CASE_BUDGET_S", "600" if tier == "quick" else "3600"))
        ex.deadline = t0 + case_budget_s
        first = True
        for path, P in ex.run(body):
            out["paths"] += 1
            if first and shard == 0:
                out["notes"] = {k: str(v)[:2000] for k, v in P.notes.items()}
            for ob in P.obligations:
                mine = counter % nshards == shard
                counter += 1
                if not mine:
                    continue
                if n_bad >= MAX_BAD_PER_SHARD or time.time() - t0 > case_budget_s:
                    # the case already has undischarged obligations (or ran out of budget): do not burn solver time on the rest
                    out["skipped"] += 1
                    continue
                expected_fail = match_known(known, case_name, ob.name) is not None
                if expected_fail:
                    n_expected += 1
                    if n_expected > 3:
                        # listed known finding: a few attempts are enough to feed the replay, do not spend more solver time
                        out["obligations"].append({"name": ob.name, "deriv": ob.deriv, "status": "unknown", "route": "known-finding-not-attempted", "secs": 0.0, "nontrivial": False, "key": ob.name, "goal": "", "path": out["paths"] - 1})
                        continue
                rec = _decide(decide, ob, case, P, path, model_to_inputs, quick_only=expected_fail)
                rec["path"] = out["paths"] - 1
                out["obligations"].append(rec)
                if rec["status"] != "proved" and not expected_fail:
                    n_bad += 1
            first = False
        out["slow"] = sorted([(o["secs"], o["name"], o["route"]) for o in out["obligations"]], reverse=True)[:3]
        out["truncated"] = ex.truncated
        out["forced"] = ex.infeasible
        out["feas"] = dict(STATS)
        # encoding validation + reachability witness (shard 0 only)
        if shard == 0 and case.validate:
            out["validation"] = _validate(modname, tier, case, body, seed, funcs)
        out["functions"] = sorted(funcs)
    except BaseException as e:  # noqa
        from .scalars import Unsupported as U

        if isinstance(e, U):
            out["unsupported"] = str(e)
        else:
            out["error"] = "%s: %s\n%s" % (type(e).__name__, e, traceback.format_exc()[-3000:])
    out["secs"] = time.time() - t0
    return out


def _decide(decide, ob, case, P, path, model_to_inputs, quick_only=False):
    t0 = time.time()
    rec = {"name": ob.name, "deriv": ob.deriv}
    cons = list(ob.cons)
    res = None
    if quick_only:
        # obligation listed in known_findings.json: expected to fail, give it one short attempt only
        res = decide.prove(ob.goal, cons + list(ob.pc), timeout_s=2, old_timeout_s=2, eq=None, rules=None, try_old=False)
    elif ob.pc and not case.pc_first:
        res = decide.prove(ob.goal, cons, timeout_s=case.timeout, old_timeout_s=case.old_timeout, eq=ob.eq, rules=ob.rules, try_old=case.try_old, cert_first=case.cert_first)
        if res.status != "proved":
            res = None
    if res is None:
        res = decide.prove(ob.goal, cons + list(ob.pc), timeout_s=case.timeout, old_timeout_s=case.old_timeout, eq=ob.eq, rules=ob.rules, try_old=case.try_old, cert_first=case.cert_first)
    if res.status == "unknown" and not quick_only:
        # last chance with four times the budgets: solver timeouts are wall-clock, so on a loaded machine an obligation that
        # normally closes in a few seconds can run out of time
        res = decide.prove(ob.goal, cons + list(ob.pc), timeout_s=4 * case.timeout, old_timeout_s=4 * case.old_timeout, eq=ob.eq, rules=ob.rules, try_old=case.try_old, cert_first=False)
        if res.status != "unknown":
            res.route = res.route + "+retry"
    rec["status"] = res.status
    rec["route"] = res.route
    rec["secs"] = round(time.time() - t0, 3)
    if res.info.get("certificate"):
        rec["certificate"] = res.info["certificate"]
    if res.status == "refuted" and res.model is not None:
        rec["candidates"] = model_to_inputs(res.model, P.inputs)
    if res.status != "proved":
        rec["goal"] = ob.goal.sexpr()[:400]
    else:
        rec["sample"] = ob.goal.sexpr()[:300] if res.route != "syntactic" else ""
    rec["nontrivial"] = res.route != "syntactic"
    rec["key"] = "%s|%d" % (ob.name, ob.goal.hash())
    return rec


def _validate(modname, tier, case, body, seed, funcs):
    """run the real code on float64 at seeded points and compare with the symbolic terms evaluated there"""
    from .paths import Explorer
    from .shadow import ShadowError, evalf
    from .scalars import CTX

    jobs = [{"case": case.name, "inputs": None, "seed": seed * 1000 + i, "values": True} for i in range(case.validate)]
    res = run_concrete(modname, tier, jobs)
    if all(r["assume_failed"] for r in res):
        # none of the seeded points satisfied the case's assumptions: draw more before calling the case vacuous
        more = [{"case": case.name, "inputs": None, "seed": seed * 1000 + 500 + i, "values": True} for i in range(12)]
        res = [r for r in run_concrete(modname, tier, more) if not r["assume_failed"]][: max(1, case.validate)] or res
    val = {"points": 0, "compared": 0, "mismatches": [], "concrete_failures": [], "reached_checks": 0, "skipped": 0}
    for r in res:
        if r["assume_failed"]:
            val["skipped"] += 1
            continue
        val["points"] += 1
        val["reached_checks"] = max(val["reached_checks"], r["n_checks"])
        for f in r["failures"]:
            val["concrete_failures"].append({"inputs": r["inputs"], "failure": f})
        if not case.shadow:
            continue  # IEEE kernels: the float64 run is the reachability witness; there is no real-valued term to compare
        shadow = dict(r["inputs"])
        ex = Explorer()
        prof = _profile_functions(funcs)
        try:
            sys.setprofile(prof)
            try:
                runs = list(ex.run(body, shadow=shadow))
            finally:
                sys.setprofile(None)
            for path, P in runs:
                memo = {}
                counts = {}
                for ob in P.obligations:
                    if ob.eq is None:
                        continue
                    base = ob.name.split("[")[0]
                    if r["values"] is None or base not in r["values"]:
                        continue
                    lv, rv = r["values"][base]
                    # positions are recovered by counting
                    i = counts.get(base, 0)
                    counts[base] = i + 1
                    if i >= len(lv):
                        continue
                    try:
                        sl = evalf(ob.eq[0], CTX.shadow, memo)
                        sr = evalf(ob.eq[1], CTX.shadow, memo)
                    except ShadowError:
                        continue
                    val["compared"] += 1
                    tol = case.val_tol if case.val_tol is not None else (1e-4 if ob.deriv else 1e-6)
                    for side, sv, cv in (("lhs", sl, lv[i]), ("rhs", sr, rv[i])):
                        if sv != sv and cv != cv:
                            continue  # NaN on both sides (singular solve reproduced by the shadow run)
                        if not (abs(sv - cv) <= tol * (1.0 + abs(cv))):
                            if len(val["mismatches"]) < 5:
                                val["mismatches"].append({"ob": ob.name, "side": side, "symbolic": sv, "concrete": cv})
        except Exception as e:  # noqa
            val["mismatches"].append({"error": "%s: %s" % (type(e).__name__, e), "tb": traceback.format_exc()[-800:]})
    return val


# ------------------------------------------------------------------------------------------------
# main
# ------------------------------------------------------------------------------------------------
def load_known(prop):
    p = os.path.join(VERIF, "known_findings.json")
    if not os.path.exists(p):
        return []
    data = json.load(open(p))
    return [f for f in data.get("findings", []) if f["property"] == prop]


def match_known(known, case, obname):
    for k in known:
        if fnmatch.fnmatch(case, k.get("case", "*")) and fnmatch.fnmatch(obname, k.get("obligation", "*")):
            return k
    return None


def main(modname, argv=None):
    ap = argparse.ArgumentParser()
    ap.add_argument("--tier", default=os.environ.get("VERIF_TIER", "quick"), choices=["quick", "thorough"])
    ap.add_argument("--replay")
    ap.add_argument("--case")
    ap.add_argument("--jobs", type=int, default=int(os.environ.get("VERIF_JOBS", "16")))
    ap.add_argument("--verbose", "-v", action="store_true")
    args = ap.parse_args(argv)
    seed = int(os.environ.get("VERIF_SEED", "0") or 0)
    sys.path.insert(0, VERIF)
    mod = importlib.import_module(modname)
    prop = mod.PROPERTY
    if args.replay:
        return replay_main(mod, modname, args.replay, args.tier)
    t0 = time.time()
    cases = mod.cases(args.tier)
    if args.case:
        cases = [c for c in cases if fnmatch.fnmatch(c.name, args.case)]
    jobs = []
    for c in cases:
        for s in range(c.shards):
            jobs.append((modname, args.tier, c.name, s, c.shards, seed))
    results = []
    if args.jobs <= 1 or len(jobs) == 1:
        for j in jobs:
            results.append(work(j))
    else:
        ctx = multiprocessing.get_context("fork")
        with ctx.Pool(min(args.jobs, len(jobs)), maxtasksperchild=8) as pool:
            for r in pool.imap_unordered(work, jobs):
                results.append(r)
                if args.verbose:
                    print("  done %s#%d: %d obligations, %d paths, %.1fs%s" % (r["case"], r["shard"], len(r["obligations"]), r["paths"], r["secs"], " ERROR" if r["error"] else ""), r.get("slow"), flush=True)
    extra = []
    if getattr(mod, "extra_checks", None) and not args.case:
        try:
            extra = mod.extra_checks(args.tier)
        except Exception as e:  # noqa
            extra = [{"name": "extra_checks", "status": "unknown", "route": "none", "secs": 0.0, "detail": "extra checks failed to run: %s" % e}]
    return finish(mod, modname, prop, args, seed, cases, results, t0, extra)


def finish(mod, modname, prop, args, seed, cases, results, t0, extra=()):
    known = load_known(prop)
    case_by_name = {c.name: c for c in cases}
    inconclusive = []
    failing = []  # (case, rec)
    n_ob = n_proved = 0
    routes = {}
    solver_s = 0.0
    nontrivial_keys = set()
    samples = []
    functions = set()
    paths = 0
    validation = {"points": 0, "compared": 0, "reached_checks": 0}
    lemma_count = 0
    skipped_cases = []
    for r in results:
        functions.update(r.get("functions", []))
        if r["shard"] == 0:
            paths += r["paths"]
        if r["error"]:
            inconclusive.append("%s: engine error: %s" % (r["case"], r["error"][:1500]))
            continue
        if r["unsupported"]:
            inconclusive.append("%s: unsupported: %s" % (r["case"], r["unsupported"]))
            if not any(c == r["case"] for c, _rec in failing):
                # the symbolic executor cannot follow the code here; the case still gets its float64 witness search on the
                # real code (a failure found there is a real failure; finding none leaves the case inconclusive)
                failing.append((r["case"], {"name": "unsupported", "status": "unsupported", "candidates": [], "route": "none"}))
            continue
        if r["shard"] == 0 and r["paths"] == 0:
            inconclusive.append("%s: no feasible path" % r["case"])
        v = r.get("validation")
        if v:
            validation["points"] += v["points"]
            validation["compared"] += v["compared"]
            validation["reached_checks"] += v["reached_checks"]
            if v["mismatches"]:
                inconclusive.append("%s: encoding validation mismatch: %s" % (r["case"], json.dumps(v["mismatches"])[:800]))
            for cf in v["concrete_failures"]:
                failing.append((r["case"], {"name": cf["failure"]["name"], "status": "concrete-failure", "candidates": [cf["inputs"]], "msg": cf["failure"]["msg"], "route": "validation-run"}))
            if v["points"] == 0 and case_by_name[r["case"]].validate:
                inconclusive.append("%s: no validation point satisfied the assumptions (vacuity guard)" % r["case"])
        if r.get("skipped"):
            skipped_cases.append((r["case"], r["skipped"]))
        if r.get("truncated"):
            skipped_cases.append((r["case"], -1))
        for rec in r["obligations"]:
            n_ob += 1
            solver_s += rec["secs"]
            routes[rec["route"]] = routes.get(rec["route"], 0) + 1
            if rec.get("certificate"):
                lemma_count += rec["certificate"].get("lemmas", 0)
            if rec["status"] == "proved":
                n_proved += 1
                if rec["nontrivial"]:
                    nontrivial_keys.add(rec["key"])
                    if len(samples) < 6 and (len(samples) == 0 or rec["name"].split("[")[0] != samples[-1]["obligation"].split("[")[0]):
                        samples.append({"case": r["case"], "obligation": rec["name"], "route": rec["route"], "goal": rec.get("sample", "")})
            else:
                failing.append((r["case"], rec))
    extra_violations = []
    for rec in extra:
        n_ob += 1
        solver_s += rec.get("secs", 0.0)
        routes[rec["route"]] = routes.get(rec["route"], 0) + 1
        if rec["status"] == "proved":
            n_proved += 1
            nontrivial_keys.add(rec["name"])
            samples.append({"case": "extra", "obligation": rec["name"], "route": rec["route"], "goal": rec.get("sample", "")})
        elif rec["status"] == "violated":
            extra_violations.append(rec)
        else:
            inconclusive.append("%s: %s" % (rec["name"], rec.get("detail", "not confirmed")))
    for c in cases:
        got = sum(len(r["obligations"]) for r in results if r["case"] == c.name)
        if got == 0 and c.expect_obligations and not any(c.name in s for s in inconclusive):
            inconclusive.append("%s: harness produced no obligation (vacuity guard)" % c.name)

    # ---- counterexamples: replay on the real code before reporting anything
    violations = []
    known_hits = {}
    scratch = os.path.realpath(os.environ.get("VERIF_REPO", "/repo")) != "/repo"
    out_root = os.environ.get("VERIF_SCRATCH", os.path.join(tempfile.gettempdir(), "verif_scratch")) if scratch else VERIF
    rep_dir = os.path.join(out_root, "replays", prop)
    by_case = {}
    for cname, rec in failing:
        by_case.setdefault(cname, []).append(rec)
    for cname, recs in by_case.items():
        case = case_by_name[cname]
        cands = []
        for rec in recs:
            for c in rec.get("candidates", []) or []:
                cands.append((rec["name"], c))
        cjobs = [{"case": cname, "inputs": c, "seed": 0, "tight": True} for _n, c in cands[:60]]
        nsearch = case.search
        # half of the witness-search runs draw lexically special doubles - except in cases that carry a recorded known finding
        # (those fail an obligation on the unchanged tree by definition; their search stays with ordinary magnitudes)
        # and only where the solver REFUTED an obligation (or the executor could not follow the code): an obligation that is
        # merely undecided must not be "refuted" by rounding at extreme magnitudes
        special_ok = not any(fnmatch.fnmatch(cname, k.get("case", "*")) for k in known) and any(rec.get("status") in ("refuted", "unsupported", "concrete-failure") for rec in recs)
        cjobs += [{"case": cname, "inputs": None, "seed": seed * 100000 + 7919 + i, "special": bool(i % 2) and special_ok} for i in range(nsearch)]
        try:
            cres = run_concrete(modname, args.tier, cjobs)
        except Exception as e:  # noqa
            inconclusive.append("%s: replay failed to run: %s" % (cname, e))
            continue
        reproduced = {}
        for job, r in zip(cjobs, cres):
            for f in r["failures"]:
                key = f["name"].split("[")[0]
                if key not in reproduced:
                    reproduced[key] = {"inputs": r["inputs"], "failure": f, "how": "solver-model" if job["inputs"] is not None else "seeded-search", "tight": bool(job.get("tight"))}
        if not reproduced:
            names = sorted({rec["name"] for rec in recs})[:8]
            sts = sorted({rec["status"] for rec in recs})
            inconclusive.append("%s: %d obligation(s) not discharged (%s) and no counterexample reproduced on the real code: %s" % (cname, len(recs), ",".join(sts), names))
            continue
        for key, info in reproduced.items():
            k = match_known(known, cname, info["failure"]["name"])
            if k is not None:
                known_hits[k["what"]] = k
                continue
            os.makedirs(rep_dir, exist_ok=True)
            h = hashlib.sha1(json.dumps([cname, key, info["inputs"]], sort_keys=True).encode()).hexdigest()[:10]
            path = os.path.join(rep_dir, "%s-%s.json" % (re.sub(r"[^A-Za-z0-9_.+-]", "_", cname)[:60], h))
            with open(path, "w") as f:
                json.dump({"property": prop, "module": modname, "tier": args.tier, "case": cname, "obligation": info["failure"]["name"], "message": info["failure"]["msg"], "inputs": info["inputs"], "tight": info["tight"], "found_by": info["how"], "replay": "bin/check %s --replay %s" % (prop, path)}, f, indent=1)
            violations.append(path)
        # obligations that failed symbolically but whose names did not reproduce are still covered by the reproduced ones

    for rec in extra_violations:
        k = match_known(known, "extra", rec["name"])
        if k is not None:
            known_hits[k["what"]] = k
            continue
        os.makedirs(rep_dir, exist_ok=True)
        h = hashlib.sha1(json.dumps(rec["replay"], sort_keys=True).encode()).hexdigest()[:10]
        path = os.path.join(rep_dir, "%s-%s.json" % (re.sub(r"[^A-Za-z0-9_.+-]", "_", rec["name"])[:60], h))
        with open(path, "w") as f:
            json.dump(dict(rec["replay"], property=prop, module=modname, obligation=rec["name"], replay="bin/check %s --replay %s" % (prop, path)), f, indent=1)
        violations.append(path)
    for cname, nsk in skipped_cases:
        if not violations and not any(cname in s for s in inconclusive):
            inconclusive.append("%s: %s" % (cname, "path exploration stopped at the time budget" if nsk < 0 else "%d obligation(s) skipped after earlier undischarged ones / budget" % nsk))
    wall = time.time() - t0
    from . import loader

    ev = {
        "property_id": prop,
        "tier": args.tier,
        "seed": seed,
        "level": "other",
        "coverage": {
            "explanation": getattr(mod, "EXPLANATION", ""),
            "obligations": n_ob,
            "discharged": n_proved,
            "evaluations": n_ob,
            "distinct_nontrivial": len(nontrivial_keys),
            "rule": "one evaluation = one solver obligation (assumptions /\\ path condition => goal) generated by symbolically executing the real functions; non-trivial = not closed by syntactic identity of the two terms (i.e. z3's simplifier, a z3 solver run or a certificate was needed); distinct by obligation name + structural hash of the goal term",
            "samples": samples or [{"note": "no solver-discharged obligation in this run"}],
            "cases": len(cases),
            "paths": paths,
            "routes": routes,
            "certificate_lemmas_checked": lemma_count,
            "solver_seconds": round(solver_s, 2),
            "bounds": getattr(mod, "BOUNDS", {}).get(args.tier, getattr(mod, "BOUNDS", {})) if isinstance(getattr(mod, "BOUNDS", None), dict) else getattr(mod, "BOUNDS", ""),
            "functions_encoded": sorted(functions),
            "source_hashes": loader.source_hashes(),
            "encoding_validation": validation,
            "reachability": "every case must reach its checks on at least one float64 run satisfying the assumptions (points=%d, checks reached=%d)" % (validation["points"], validation["reached_checks"]),
            "known_findings_seen": sorted(known_hits),
            "inconclusive": inconclusive[:20],
            "outside": getattr(mod, "OUTSIDE", ""),
        },
        "assumptions": getattr(mod, "ASSUMPTIONS", []),
        "wall_s": round(wall, 2),
        "violations": len(violations),
    }
    os.makedirs(os.path.join(out_root, "evidence"), exist_ok=True)
    with open(os.path.join(out_root, "evidence", "%s.json" % prop), "w") as f:
        json.dump(ev, f, indent=1)
    print("%s tier=%s cases=%d paths=%d obligations=%d discharged=%d routes=%s wall=%.1fs" % (prop, args.tier, len(cases), paths, n_ob, n_proved, routes, wall))
    for what in sorted(known_hits):
        print("KNOWN-FINDING: property=%s %s" % (prop, what))
    for p in violations:
        print("VIOLATION property=%s replay=%s" % (prop, p))
    if violations:
        return EXIT_VIOLATION
    if inconclusive:
        for s in inconclusive[:20]:
            print("INCONCLUSIVE: %s" % s[:600].replace("\n", " "))
        return EXIT_INCONCLUSIVE
    return EXIT_OK


def replay_main(mod, modname, path, tier):
    spec = json.load(open(path))
    if spec.get("kind") and getattr(mod, "replay_extra", None):
        bad, msg = mod.replay_extra(spec)
        print(("REPRODUCED" if bad else "NOT REPRODUCED") + " property=%s %s %s" % (mod.PROPERTY, spec.get("obligation", ""), msg if bad else ""))
        return EXIT_VIOLATION if bad else EXIT_OK
    res = run_concrete(modname, spec.get("tier", tier), [{"case": spec["case"], "inputs": spec["inputs"], "seed": 0, "tight": spec.get("tight", False)}])
    fails = res[0]["failures"]
    if fails:
        print("REPRODUCED property=%s case=%s" % (mod.PROPERTY, spec["case"]))
        for f in fails[:10]:
            print("  %s: %s" % (f["name"], f["msg"]))
        return EXIT_VIOLATION
    print("NOT REPRODUCED property=%s case=%s" % (mod.PROPERTY, spec["case"]))
    return EXIT_OK
