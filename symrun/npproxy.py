"""The object bound to the module global ``np`` of every graphslam module in symbolic mode.

Everything is real numpy except: creators that would force float64 (they yield ``dtype=object`` when the
content is symbolic / when the array is going to be written), ``sqrt/cos/sin`` and ``linalg.norm`` on engine
scalars, and the constant ``pi``.
"""
import numpy

from .scalars import CTX, PI, Sym, SymInt, Unsupported


def _fp():
    from . import fp

    return fp


def has_sym(a):
    if isinstance(a, (Sym, SymInt)) or type(a).__name__ == "SymFP":
        return True
    if isinstance(a, numpy.ndarray):
        if a.dtype != object:
            return False
        return any(isinstance(x, (Sym, SymInt)) or type(x).__name__ == "SymFP" for x in a.flat)
    if isinstance(a, (list, tuple)):
        return any(has_sym(x) for x in a)
    return False


def _resolve_tokens(obj):
    """numpy's own string -> float64 conversion, for strings that are number tokens of the in-memory .g2o files"""
    if isinstance(obj, str):
        from . import tokens

        return tokens.sym_float(obj)
    if isinstance(obj, (list, tuple)) and any(isinstance(x, (str, list, tuple)) for x in obj):
        return [_resolve_tokens(x) for x in obj]
    return obj


class _Linalg:
    def __getattr__(self, n):
        return getattr(numpy.linalg, n)

    @staticmethod
    def norm(x, *a, **k):
        if a or k:
            raise Unsupported("np.linalg.norm with extra arguments")
        if isinstance(x, (Sym,)):
            return abs(x)
        arr = numpy.asarray(x, dtype=object) if not isinstance(x, numpy.ndarray) else x
        if arr.dtype != object:
            return numpy.linalg.norm(arr)
        if any(type(e).__name__ == "SymFP" for e in arr.flat):
            SymFP = _fp().SymFP
            acc = None
            for e in arr.flat:  # sequential sum of squares (documented model of the dot product order)
                e = SymFP.lift(e)
                acc = e * e if acc is None else acc + e * e
            return acc.sqrt()
        if not any(isinstance(e, Sym) for e in arr.flat):
            return numpy.linalg.norm(numpy.array(arr, dtype=float))
        acc = Sym.const(0)
        for e in arr.flat:
            e = Sym.lift(e)
            if e is None:
                raise Unsupported("norm of non-numeric content")
            acc = acc + e * e
        return acc.sqrt()


class NpProxy:
    linalg = _Linalg()

    @property
    def pi(self):
        if getattr(CTX, "fp_mode", False):
            import math

            return _fp().SymFP(_fp().fpval(math.pi))
        return PI

    def __getattr__(self, n):
        return getattr(numpy, n)

    # creators ---------------------------------------------------------------------------------
    @staticmethod
    def array(obj, dtype=None, **kw):
        if dtype is not None and dtype is not numpy.float64 and dtype is not float and dtype is not object:
            return numpy.array(obj, dtype=dtype, **kw)
        if dtype in (numpy.float64, float):
            obj = _resolve_tokens(obj)
        a = numpy.array(obj, dtype=object, **kw)
        if has_sym(a):
            return a
        if isinstance(obj, numpy.ndarray) and obj.dtype == object:
            return a  # stay in object land (copy of an object array)
        return numpy.array(obj, dtype=dtype, **kw)

    @staticmethod
    def asarray(obj, dtype=None, **kw):
        if isinstance(obj, numpy.ndarray) and obj.dtype == object:
            return numpy.asarray(obj)
        if dtype is not None and dtype is not numpy.float64 and dtype is not float and dtype is not object:
            return numpy.asarray(obj, dtype=dtype, **kw)
        if dtype in (numpy.float64, float):
            obj = _resolve_tokens(obj)
        a = numpy.asarray(obj, dtype=object)
        if has_sym(a):
            return a
        return numpy.asarray(obj, dtype=dtype, **kw)

    @staticmethod
    def zeros(shape, dtype=None, **kw):
        a = numpy.empty(shape, dtype=object)
        a.fill(0.0)
        return a

    @staticmethod
    def empty(shape, dtype=None, **kw):
        a = numpy.empty(shape, dtype=object)
        a.fill(0.0)
        return a

    @staticmethod
    def _keeps_dtype(a, dtype):
        """integer / bool prototypes keep their dtype (numpy semantics the code under test may rely on or trip over)"""
        return dtype is None and isinstance(a, numpy.ndarray) and a.dtype.kind in "iub"

    @staticmethod
    def zeros_like(a, dtype=None, **kw):
        if NpProxy._keeps_dtype(a, dtype):
            return numpy.zeros_like(a, **kw)
        r = numpy.empty(numpy.shape(a), dtype=object)
        r.fill(0.0)
        return r

    @staticmethod
    def eye(*a, **k):
        k.pop("dtype", None)
        return numpy.eye(*a, **k).astype(object)  # writable with symbols (a float64 identity would reject them)

    @staticmethod
    def identity(n, dtype=None, **k):
        return numpy.identity(n).astype(object)

    @staticmethod
    def full(shape, fill_value, dtype=None, **k):
        a = numpy.empty(shape, dtype=object)
        a.fill(fill_value)
        return a

    @staticmethod
    def ones_like(a, dtype=None, **kw):
        if NpProxy._keeps_dtype(a, dtype):
            return numpy.ones_like(a, **kw)
        r = numpy.empty(numpy.shape(a), dtype=object)
        r.fill(1.0)
        return r

    @staticmethod
    def empty_like(a, dtype=None, **kw):
        if NpProxy._keeps_dtype(a, dtype):
            return numpy.zeros_like(a, **kw)
        r = numpy.empty(numpy.shape(a), dtype=object)
        r.fill(0.0)
        return r

    @staticmethod
    def ones(shape, dtype=None, **kw):
        a = numpy.empty(shape, dtype=object)
        a.fill(1.0)
        return a

    # scalar functions -------------------------------------------------------------------------
    @staticmethod
    def sqrt(x, *a, **k):
        if isinstance(x, Sym) or type(x).__name__ == "SymFP":
            return x.sqrt()
        return numpy.sqrt(x, *a, **k)

    @staticmethod
    def cos(x, *a, **k):
        if isinstance(x, Sym) or type(x).__name__ == "SymFP":
            return x.cos()
        return numpy.cos(x, *a, **k)

    @staticmethod
    def sin(x, *a, **k):
        if isinstance(x, Sym) or type(x).__name__ == "SymFP":
            return x.sin()
        return numpy.sin(x, *a, **k)

    @staticmethod
    def abs(x, *a, **k):
        if isinstance(x, Sym) or type(x).__name__ == "SymFP":
            return abs(x)
        return numpy.abs(x, *a, **k)

    absolute = abs

    @staticmethod
    def floor(x, *a, **k):
        if isinstance(x, Sym) or type(x).__name__ == "SymFP":
            return x.__floor__()
        return numpy.floor(x, *a, **k)

    @staticmethod
    def arctan2(*a, **k):
        if any(has_sym(x) for x in a):
            raise Unsupported("arctan2 of symbolic values")
        return numpy.arctan2(*a, **k)

    @staticmethod
    def isclose(a, b, rtol=1e-05, atol=1e-08, equal_nan=False):
        if not (has_sym(a) or has_sym(b) or has_sym(rtol) or has_sym(atol)):
            return numpy.isclose(a, b, rtol=rtol, atol=atol, equal_nan=equal_nan)
        import z3

        from .scalars import SymBool, frac, vz

        aa, bb = numpy.broadcast_arrays(numpy.array(a, dtype=object), numpy.array(b, dtype=object))
        out = numpy.empty(aa.shape, dtype=object)
        for idx in numpy.ndindex(aa.shape):
            x, y = Sym.lift(aa[idx]), Sym.lift(bb[idx])
            if x is None or y is None:
                raise Unsupported("isclose of non-numeric content")
            at, rt = Sym.lift(atol), Sym.lift(rtol)
            if at is None or rt is None:
                raise Unsupported("isclose with non-numeric tolerances")
            if x.is_const() and y.is_const() and at.is_const() and rt.is_const():
                out[idx] = bool(abs(x.v - y.v) <= at.v + rt.v * abs(y.v))
                continue
            d = x.z() - y.z()
            ay = z3.If(y.z() >= 0, y.z(), -y.z())
            lim = at.z() + rt.z() * ay
            c = z3.simplify(z3.And(d <= lim, -d <= lim))
            out[idx] = True if z3.is_true(c) else (False if z3.is_false(c) else SymBool(c))
        return out

    @staticmethod
    def allclose(a, b, rtol=1e-05, atol=1e-08, equal_nan=False):
        if not (has_sym(a) or has_sym(b) or has_sym(rtol) or has_sym(atol)):
            return numpy.allclose(a, b, rtol=rtol, atol=atol, equal_nan=equal_nan)
        r = NpProxy.isclose(a, b, rtol=rtol, atol=atol, equal_nan=equal_nan)
        return all(bool(x) for x in r.flat)

    @staticmethod
    def array_equal(a, b, **k):
        if not (has_sym(a) or has_sym(b)):
            return numpy.array_equal(a, b, **k)
        aa, bb = numpy.array(a, dtype=object), numpy.array(b, dtype=object)
        if aa.shape != bb.shape:
            return False
        def eq(x, y):
            if type(x).__name__ == "SymFP" or type(y).__name__ == "SymFP":
                return x == y  # IEEE equality
            return Sym.lift(x) == Sym.lift(y)

        return all(bool(eq(x, y)) for x, y in zip(aa.flat, bb.flat))


NP = NpProxy()
