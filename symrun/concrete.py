"""Concrete provider: the same harness code run on plain float64 numpy against the unmodified package.
Used for (a) replaying solver counterexamples, (b) encoding validation, (c) last-resort witness search.
Must not import z3 (runs under /venv/bin/python)."""
import math
import random

import numpy as np


class ConcreteProvider:
    symbolic = False
    np = np

    # doubles whose decimal text / magnitude is unusual (exponent forms, integral values, extremes): drawn in the
    # "special" witness-search runs, because how a double is PRINTED is behind the C boundary of the symbolic model
    # (magnitudes are kept within 1e-10 .. 1e22 so that products of a handful of them neither overflow nor underflow)
    SPECIALS = [0.0, 1.0, -1.0, 2.0, 10.0, 100.0, 500.0, 1e5, 123456789.0, 1e15, 1e16, 1e20, 2.5e20, -1e20, 1e22, 3e21,
                1e-5, 1e-7, 1e-10, 2.5e-10, 0.1, 1.0 / 3.0, 2.0 ** 53, 2.0 ** 53 + 2.0, 1.5, 0.5, 1e10, 7e10]

    def __init__(self, inputs=None, seed=0, record_values=False, tight=False, special=False):
        self.special = special
        self.tight = tight
        self.given = dict(inputs or {})
        self.inputs = {}
        self.rng = random.Random(seed)
        self.failures = []
        self.values = {} if record_values else None
        self.notes = {}
        self.n_checks = 0
        self.assume_failed = False
        self._names = {}

    def _uniq(self, name):
        n = self._names.get(name, 0) + 1
        self._names[name] = n
        return name if n == 1 else "%s#%d" % (name, n)

    # ---- inputs
    def _get(self, name, gen):
        if name in self.inputs:
            return self.inputs[name]
        if name in self.given:
            v = self.given[name]
        else:
            v = gen()
        self.inputs[name] = v
        return v

    def draw_from(self, pool):
        """the harness asks for this case's unconstrained reals to be drawn (with probability 0.4) from ``pool``: float64
        validation / search points of a particular kind (extreme magnitudes, ...).  No effect on the symbolic side."""
        self.special = True
        self.pool = list(pool)

    def real(self, name, lo=None, hi=None, scale=3.0):
        def gen():
            if self.special and self.rng.random() < 0.4:
                pool = [x for x in getattr(self, "pool", self.SPECIALS) if (lo is None or x >= lo) and (hi is None or x <= hi)]
                if pool:
                    return self.rng.choice(pool)
            if lo is not None and hi is not None:
                return self.rng.uniform(lo, hi)
            if lo is not None:
                return lo + abs(self.rng.gauss(0, scale)) + 1e-3
            if hi is not None:
                return hi - abs(self.rng.gauss(0, scale)) - 1e-3
            return self.rng.gauss(0, scale)

        return float(self._get(name, gen))

    def fp(self, name, lo=None, hi=None):
        lo_, hi_ = (-1e3 if lo is None else lo), (1e3 if hi is None else hi)
        return float(self._get(name, lambda: self.rng.uniform(lo_, hi_)))

    def fp_mode(self, g):
        import contextlib

        return contextlib.nullcontext()

    def check_bits(self, name, a, b):
        import struct

        name = self._uniq(name)
        self.n_checks += 1
        if self.assume_failed:
            return
        la, lb = np.array(a, dtype=float).reshape(-1), np.array(b, dtype=float).reshape(-1)
        if la.shape != lb.shape:
            self.failures.append({"name": name, "msg": "shape %s vs %s" % (la.shape, lb.shape)})
            return
        for i, (x, y) in enumerate(zip(la, lb)):
            if struct.pack("<d", x) != struct.pack("<d", y):
                self.failures.append({"name": "%s[%d]" % (name, i), "msg": "bits differ: %r vs %r" % (float(x), float(y))})
                return

    def sampled_real(self, name, sampler):
        """a real whose concrete value is drawn by ``sampler(rng)`` (the harness adds the matching assumptions itself)"""
        return float(self._get(name, lambda: sampler(self.rng)))

    def reals(self, name, n, **kw):
        return [self.real("%s_%d" % (name, i), **kw) for i in range(n)]

    def positive(self, name, scale=1.0):
        return float(self._get(name, lambda: math.exp(self.rng.gauss(0, 1)) * scale))

    def unit_quat(self, name):
        names = [name + "_" + c for c in "xyzw"]
        if all(n in self.inputs for n in names):
            return [self.inputs[n] for n in names]
        if all(n in self.given for n in names):
            q = [float(self.given[n]) for n in names]
        else:
            q = [self.rng.gauss(0, 1) for _ in range(4)]
        nrm = math.sqrt(sum(x * x for x in q))
        if nrm == 0:
            q, nrm = [0.0, 0.0, 0.0, 1.0], 1.0
        q = [x / nrm for x in q]
        for n, x in zip(names, q):
            self.inputs[n] = x
        return q

    def angle(self, name, wrapped=False, big=False):
        def gen():
            if big and not wrapped:
                return self.rng.uniform(-40.0, 40.0)
            return self.rng.uniform(-math.pi, math.pi)

        v = float(self._get(name, gen))
        if wrapped and not (-math.pi <= v < math.pi):
            self.assume_failed = True
        return v

    def int(self, name, lo=None, hi=None):
        def gen():
            if lo is None and hi is None and self.rng.random() < 0.3:
                # ids are arbitrary integers: also huge ones that no double represents exactly
                return self.rng.choice([-1, 1]) * (2 ** 53 + 1 + 2 * self.rng.randint(0, 2 ** 20))
            return self.rng.randint(-1000 if lo is None else lo, 1000 if hi is None else hi)

        return int(self._get(name, gen))

    def distinct(self, xs):
        if len(set(xs)) != len(xs):
            self.assume_failed = True

    def sym_matrix(self, name, n, psd=False):
        m = np.zeros((n, n))
        if psd:
            have = all("%s_%d_%d" % (name, i, j) in self.given for i in range(n) for j in range(i, n))
            if not have:
                a = np.array([[self.rng.gauss(0, 1) for _ in range(n)] for _ in range(n)])
                spd = a.T @ a + 0.5 * np.eye(n)
                if self.special and self.rng.random() < 0.6:
                    # positive definite with lexically special entries: a special diagonal (plus, sometimes, small cross terms)
                    pos = [x for x in self.SPECIALS if x > 0]
                    d = [self.rng.choice(pos) for _ in range(n)]
                    spd = np.diag(d)
                    if self.rng.random() < 0.3 and n > 1:
                        c = 0.25 * min(d[0], d[1])
                        spd[0, 1] = spd[1, 0] = c
                for i in range(n):
                    for j in range(i, n):
                        self.given.setdefault("%s_%d_%d" % (name, i, j), float(spd[i, j]))
        for i in range(n):
            for j in range(i, n):
                v = self.real("%s_%d_%d" % (name, i, j), scale=1.0)
                m[i, j] = v
                m[j, i] = v
        return m

    def full_matrix(self, name, r, c):
        return np.array([[self.real("%s_%d_%d" % (name, i, j), scale=1.0) for j in range(c)] for i in range(r)])

    def vector(self, name, n, **kw):
        return np.array(self.reals(name, n, **kw))

    def assume(self, cond):
        if not bool(cond):
            self.assume_failed = True

    # ---- derivative oracle: central difference of the real function
    def derivative(self, f, dim, h=1e-6):
        cols = []
        for j in range(dim):
            dp = np.zeros(dim)
            dp[j] = h
            a = np.array(f(dp), dtype=float)
            dm = np.zeros(dim)
            dm[j] = -h
            b = np.array(f(dm), dtype=float)
            cols.append((a - b) / (2 * h))
        return np.stack(cols, axis=-1)

    deriv_tol = 2e-5

    # ---- checks
    def _flat(self, x):
        return np.array(x, dtype=float).reshape(-1)

    def check_eq(self, name, lhs, rhs, tol=1e-8, deriv=False, exact=False):
        name = self._uniq(name)
        self.n_checks += 1
        if self.assume_failed:
            return
        try:
            la = np.array(lhs, dtype=float)
            ra = np.array(rhs, dtype=float)
        except Exception as e:  # noqa
            self.failures.append({"name": name, "msg": "not numeric: %r" % (e,)})
            return
        if la.shape != ra.shape:
            try:
                la, ra = np.broadcast_arrays(la, ra)
            except ValueError:
                self.failures.append({"name": name, "msg": "shape %s vs %s" % (la.shape, ra.shape)})
                return
        l, r = la.reshape(-1), ra.reshape(-1)
        if self.values is not None:
            self.values[name] = [l.tolist(), r.tolist()]
        if deriv:
            tol = max(tol, self.deriv_tol)
        if exact:
            # the two sides must be the same double (round trips through text, plain copies)
            bad = ~(l == r)
            scale, tol = 1.0, 0.0
        elif self.tight and not deriv:
            # replay of a solver counterexample: relative comparison with a tiny absolute floor, so that violations far
            # below 1e-8 in absolute size (tiny information entries, tiny errors) still reproduce
            lim = 1e-9 * np.maximum(np.abs(l), np.abs(r)) + 1e-13
            bad = ~(np.abs(l - r) <= lim)
            scale = 1.0
            tol = float(np.max(lim)) if lim.size else 0.0
        else:
            scale = 1.0 + max(np.max(np.abs(l), initial=0.0), np.max(np.abs(r), initial=0.0))
            bad = ~(np.abs(l - r) <= tol * scale)
        bad = bad & ~(np.isnan(l) & np.isnan(r))  # NaN on both sides (a singular solve in both runs) is not a difference
        with np.errstate(invalid="ignore"):
            bad = bad & ~(l == r)  # identical values, in particular the same infinity on both sides (inf - inf is NaN)
            if not exact and not np.isfinite(scale):
                # an overflowing entry elsewhere in the array makes the common scale infinite: compare entry by entry
                bad = bad & ~(np.abs(l - r) <= tol * (1.0 + np.maximum(np.abs(l), np.abs(r))))
        if bad.any():
            i = int(np.argmax(bad))
            self.failures.append({"name": name, "msg": "entry %d: %r != %r (tol %g)" % (i, float(l[i]), float(r[i]), tol * scale)})

    def check(self, name, cond):
        name = self._uniq(name)
        self.n_checks += 1
        if self.assume_failed:
            return
        if self.values is not None:
            self.values[name] = [[float(bool(cond))], [1.0]]
        if not bool(cond):
            self.failures.append({"name": name, "msg": "condition is false"})

    def fail(self, name, msg=""):
        name = self._uniq(name)
        self.n_checks += 1
        if self.assume_failed:
            return
        self.failures.append({"name": name, "msg": msg})

    def note(self, key, val):
        self.notes[key] = val

    # ---- helpers the harness may use on results
    def tangent_free(self, x):
        return x

    def is_true(self, cond):
        return bool(cond)

    def is_integer(self, x, tol=1e-7):
        return abs(float(x) - round(float(x))) <= tol

    def both(self, a, b):
        return bool(a) and bool(b)

    def either(self, a, b):
        return bool(a) or bool(b)

    def implies(self, a, b):
        return (not bool(a)) or bool(b)

    def const(self, x):
        return float(x)

    def same_truth(self, a, b):
        return bool(a) == bool(b)

    def is_boolean(self, x):
        return isinstance(x, (bool, np.bool_))
