"""Import the real graphslam package from /repo (current working tree) and, in symbolic mode, rebind the
module globals through which it reaches its environment.  No file under /repo is edited."""
import hashlib
import importlib
import os
import sys

REPO = os.environ.get("VERIF_REPO", "/repo")

_MODULES = [
    "graphslam",
    "graphslam.util",
    "graphslam.pose.base_pose",
    "graphslam.pose.r2",
    "graphslam.pose.r3",
    "graphslam.pose.se2",
    "graphslam.pose.se3",
    "graphslam.vertex",
    "graphslam.edge.base_edge",
    "graphslam.edge.edge_odometry",
    "graphslam.edge.edge_landmark",
    "graphslam.g2o_parameters",
    "graphslam.graph",
    "graphslam.load",
]


class G:
    """namespace with the real classes"""


def load(symbolic):
    sys.dont_write_bytecode = True
    if REPO not in sys.path:
        sys.path.insert(0, REPO)
    os.environ.setdefault("MPLBACKEND", "Agg")
    for m in list(sys.modules):
        if m == "graphslam" or m.startswith("graphslam."):
            del sys.modules[m]
    if symbolic:
        # matplotlib is optional for the package and irrelevant here; make the optional import fail fast
        sys.modules.setdefault("matplotlib", None)
        sys.modules.setdefault("matplotlib.pyplot", None)
        sys.modules.setdefault("mpl_toolkits", None)
        sys.modules.setdefault("mpl_toolkits.mplot3d", None)
    mods = {}
    for name in _MODULES:
        mods[name] = importlib.import_module(name)
    for name, mod in mods.items():
        f = getattr(mod, "__file__", "") or ""
        if not os.path.realpath(f).startswith(os.path.realpath(REPO) + os.sep):
            raise RuntimeError("graphslam module %s not loaded from %s (%s)" % (name, REPO, f))
    g = G()
    g.mods = mods
    g.util = mods["graphslam.util"]
    g.PoseR2 = mods["graphslam.pose.r2"].PoseR2
    g.PoseR3 = mods["graphslam.pose.r3"].PoseR3
    g.PoseSE2 = mods["graphslam.pose.se2"].PoseSE2
    g.PoseSE3 = mods["graphslam.pose.se3"].PoseSE3
    g.BasePose = mods["graphslam.pose.base_pose"].BasePose
    g.Vertex = mods["graphslam.vertex"].Vertex
    g.BaseEdge = mods["graphslam.edge.base_edge"].BaseEdge
    g.EdgeOdometry = mods["graphslam.edge.edge_odometry"].EdgeOdometry
    g.EdgeLandmark = mods["graphslam.edge.edge_landmark"].EdgeLandmark
    g.Graph = mods["graphslam.graph"].Graph
    g.graph_mod = mods["graphslam.graph"]
    g.load_mod = mods["graphslam.load"]
    g.params_mod = mods["graphslam.g2o_parameters"]
    g.G2OParameterSE2Offset = g.params_mod.G2OParameterSE2Offset
    g.G2OParameterSE3Offset = g.params_mod.G2OParameterSE3Offset
    g.OptimizationResult = g.graph_mod.OptimizationResult
    g.symbolic = symbolic
    g._saved = {name: {a: getattr(mod, a) for a in ("lil_matrix", "spsolve", "time") if hasattr(mod, a)} for name, mod in mods.items()}
    # module-level float arrays (work buffers, constant matrices created at import time with the real numpy)
    import numpy as _numpy

    g._module_arrays = {}
    for name, mod in mods.items():
        for a, v in list(vars(mod).items()):
            if isinstance(v, _numpy.ndarray) and v.dtype.kind == "f":
                g._module_arrays[(name, a)] = v.copy()
    if symbolic:
        from .npproxy import NP
        from .scalars import TWO_PI

        for name, mod in mods.items():
            if hasattr(mod, "np"):
                mod.np = NP
        if hasattr(g.util, "TWO_PI"):
            g.util.TWO_PI = TWO_PI
    return g


def source_hashes():
    out = {}
    for root, _dirs, files in os.walk(os.path.join(REPO, "graphslam")):
        for f in sorted(files):
            if f.endswith(".py"):
                p = os.path.join(root, f)
                out[os.path.relpath(p, REPO)] = hashlib.sha256(open(p, "rb").read()).hexdigest()[:16]
    return dict(sorted(out.items()))


def reset_stubs(g):
    """undo every environment stub a previous case bound into the package's modules (cases share a worker process)"""
    for name, mod in g.mods.items():
        for a in ("float", "int", "open", "print"):
            if a in mod.__dict__:
                del mod.__dict__[a]
        for a, v in g._saved.get(name, {}).items():
            setattr(mod, a, v)
    if g.symbolic:
        from .scalars import CTX, TWO_PI

        # module-level float arrays become fresh object arrays (so that engine scalars can be stored in them) every case
        for (name, a), orig in g._module_arrays.items():
            setattr(g.mods[name], a, orig.astype(object))
        CTX.fp_mode = False
        if hasattr(g.util, "TWO_PI"):
            g.util.TWO_PI = TWO_PI
